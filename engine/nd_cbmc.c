/* CBMC side of the nd_* API: one non-inlined function per type so that every
 * call leaves a goto_symex$$return_value$$nd_* step in the trace. */
#include "verif.h"
#ifndef VERIF_NATIVE
uint8_t nd_u8(void) { uint8_t v = nondet_uchar(); return v; }
uint16_t nd_u16(void) { uint16_t v = nondet_ushort(); return v; }
uint32_t nd_u32(void) { uint32_t v = nondet_uint(); return v; }
uint64_t nd_u64(void) { uint64_t v = nondet_ulong(); return v; }
size_t nd_size(void) { size_t v = nondet_ulong(); return v; }
int nd_int(void) { int v = nondet_int(); return v; }
int64_t nd_i64(void) { int64_t v = nondet_long(); return v; }
bool nd_bool(void) { bool v = nondet_bool(); return v; }
double nd_double(void) {
    union { uint64_t u; double d; } x;
    x.u = nondet_ulong();
    return x.d;
}
float nd_float(void) {
    union { uint32_t u; float f; } x;
    x.u = nondet_uint();
    return x.f;
}
#endif
