/* verif.h - harness API shared by the CBMC build (goto-cc) and the native
 * replay build (gcc -DVERIF_NATIVE -fsanitize=address,undefined).
 *
 * The real build is -DNDEBUG, therefore <assert.h> assert() is a no-op; harnesses
 * use ASSERT/ASSUME/WITNESS only.
 *
 * All nondeterminism goes through nd_*() so that a CBMC trace can be replayed:
 * the engine extracts the sequence of nd_* return values from the trace and the
 * native build reads them back in the same order.
 */
#ifndef VERIF_H
#define VERIF_H
#include <stddef.h>
#include <stdint.h>
#include <stdbool.h>

#ifdef VERIF_NATIVE
#    include <stdio.h>
#    include <stdlib.h>
uint64_t verif_next(void);
void verif_fail(const char *msg, const char *file, int line);
void verif_infeasible(const char *file, int line);
void verif_witness(const char *msg);
#    define ASSUME(c)                                                                                                  \
        do {                                                                                                           \
            if (!(c))                                                                                                  \
                verif_infeasible(__FILE__, __LINE__);                                                                  \
        } while (0)
#    define ASSERT(c, msg)                                                                                             \
        do {                                                                                                           \
            if (!(c))                                                                                                  \
                verif_fail(msg, __FILE__, __LINE__);                                                                   \
        } while (0)
#    define WITNESS(msg) verif_witness(msg)
#    define VERIF_CBMC_ONLY(x)
static inline uint8_t nd_u8(void) { return (uint8_t)verif_next(); }
static inline uint16_t nd_u16(void) { return (uint16_t)verif_next(); }
static inline uint32_t nd_u32(void) { return (uint32_t)verif_next(); }
static inline uint64_t nd_u64(void) { return (uint64_t)verif_next(); }
static inline size_t nd_size(void) { return (size_t)verif_next(); }
static inline int nd_int(void) { return (int)verif_next(); }
static inline int64_t nd_i64(void) { return (int64_t)verif_next(); }
static inline bool nd_bool(void) { return (verif_next() & 1) != 0; }
static inline double nd_double(void) {
    union {
        uint64_t u;
        double d;
    } x;
    x.u = verif_next();
    return x.d;
}
static inline float nd_float(void) {
    union {
        uint32_t u;
        float f;
    } x;
    x.u = (uint32_t)verif_next();
    return x.f;
}
#else
unsigned char nondet_uchar(void);
unsigned short nondet_ushort(void);
unsigned int nondet_uint(void);
unsigned long nondet_ulong(void);
int nondet_int(void);
long nondet_long(void);
_Bool nondet_bool(void);
#    define ASSUME(c) __CPROVER_assume(c)
#    define ASSERT(c, msg) __CPROVER_assert((c), msg)
#    define WITNESS(msg) __CPROVER_assert(0, "WITNESS: " msg)
#    define VERIF_CBMC_ONLY(x) x
/* not inline: each call must show up as goto_symex$$return_value$$nd_* in the trace */
uint8_t nd_u8(void);
uint16_t nd_u16(void);
uint32_t nd_u32(void);
uint64_t nd_u64(void);
size_t nd_size(void);
int nd_int(void);
int64_t nd_i64(void);
bool nd_bool(void);
double nd_double(void);
float nd_float(void);
#endif

/* fill n (<= nmax, nmax a compile-time constant) bytes with symbolic values */
#define ND_FILL(p, n, nmax)                                                                                            \
    do {                                                                                                               \
        for (size_t nd_i_ = 0; nd_i_ < (size_t)(nmax); ++nd_i_)                                                        \
            if (nd_i_ < (size_t)(n))                                                                                   \
                ((uint8_t *)(p))[nd_i_] = nd_u8();                                                                     \
    } while (0)

/* the harness allocator (stubs/alloc.c): malloc/calloc/realloc/free, never fails */
struct aws_allocator;
struct aws_allocator *verif_allocator(void);
/* malloc that never returns NULL (assumed in CBMC; abort natively) */
void *verif_malloc(size_t n);
void verif_free(void *p);
void *verif_malloc_sw(size_t n); /* small symbolic n: case split over constant-size objects */

#ifdef VERIF_ALLOC_TRACK
/* alloc_direct.c block-size tracking (for "zeroed before release" checks) */
struct verif_blk { void *p; size_t n; };
extern struct verif_blk verif_blocks[8];
extern size_t verif_nblocks;
void verif_release_hook(void *p, size_t n); /* defined by the harness */
#endif

#endif /* VERIF_H */
