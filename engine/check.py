#!/usr/bin/env python3
"""
verif engine: solver-based checking of /repo's real C sources with CBMC.

  check.py <PROPERTY_ID> [--tier quick|thorough] [--only entry|unit|unit:entry[,...]] [--keep]
  check.py --replay <replay-file>

Pipeline per run (nothing cached between runs):
  /repo working tree -> generated config.h -> goto-cc (harness + stubs + named
  /repo sources, -DNDEBUG like the real build) -> [goto-instrument cuts] ->
  cbmc per entry function (per-loop unwind bounds, unwinding assertions, all
  pointer/bounds checks) -> classify every CBMC property -> for a failing
  property: trace -> nd_* values -> native ASan/UBSan replay -> VIOLATION line.

Exit codes: 0 held within bounds; 1 violation (VIOLATION line printed);
2 inconclusive / broken harness (time-out, OOM, witness unreachable, ...).
"""
import concurrent.futures as cf
import hashlib
import importlib.util
import json
import os
import re
import resource
import shutil
import signal
import subprocess
import sys
import time

VERIF = os.path.dirname(os.path.dirname(os.path.abspath(__file__)))
REPO = os.environ.get("VERIF_REPO", "/repo")
NCPU = int(os.environ.get("VERIF_JOBS", str(os.cpu_count() or 8)))

FEATURES_DEFAULT = [
    "AWS_HAVE_GCC_OVERFLOW_MATH_EXTENSIONS", "AWS_HAVE_GCC_INLINE_ASM",
    "AWS_HAVE_POSIX_LARGE_FILE_SUPPORT", "AWS_HAVE_EXECINFO", "AWS_HAVE_LINUX_IF_LINK_H",
    "AWS_HAVE_AVX2_INTRINSICS", "AWS_HAVE_AVX512_INTRINSICS", "AWS_HAVE_MM256_EXTRACT_EPI64",
    "AWS_HAVE_CLMUL", "AWS_ARCH_INTEL", "AWS_ARCH_INTEL_X64", "AWS_USE_CPU_EXTENSIONS",
]
REAL_DEFINES = [
    "-DAWS_AFFINITY_METHOD=AWS_AFFINITY_METHOD_PTHREAD_ATTR", "-DAWS_PTHREAD_GETNAME_TAKES_3ARGS",
    "-DAWS_PTHREAD_SETNAME_TAKES_2ARGS", "-DCJSON_HIDE_SYMBOLS", "-DHAVE_SYSCONF",
    "-DINTEL_NO_ITTNOTIFY_API", "-DUSE_SIMD_ENCODING", "-D_POSIX_C_SOURCE=200809L", "-D_XOPEN_SOURCE=500",
    "-DNDEBUG",
]


def log(*a):
    print(*a, flush=True)


def sha256(path):
    h = hashlib.sha256()
    with open(path, "rb") as f:
        h.update(f.read())
    return h.hexdigest()


def gen_config(scratch, features):
    src = open(os.path.join(REPO, "include/aws/common/config.h.in")).read()
    out = []
    for line in src.splitlines():
        m = re.match(r"#cmakedefine\s+(\w+)", line)
        if m:
            out.append("#define %s" % m.group(1) if m.group(1) in features else "/* #undef %s */" % m.group(1))
        else:
            out.append(line)
    key = hashlib.sha1(",".join(sorted(features)).encode()).hexdigest()[:8]
    d = os.path.join(scratch, "gen-" + key, "aws", "common")
    os.makedirs(d, exist_ok=True)
    with open(os.path.join(d, "config.h"), "w") as f:
        f.write("\n".join(out) + "\n")
    return os.path.join(scratch, "gen-" + key)


# ---- inline-asm lifting (headers only) -------------------------------------------------
# CBMC has no semantics for `bswap`; the statement is lifted to its C meaning when — and only
# when — template and constraints match exactly.  Any other asm text in the file makes the
# lifter refuse (the run is then BROKEN, never silently "nondet").
ASM_LIFT = {
    "include/aws/common/byte_order.inl": [
        (r'__asm__\("bswap %q0" : "=r"\(v\) : "0"\(x\)\);', 'v = __builtin_bswap64(x); /* lifted: bswap %q0, out=v tied to in=x */'),
    ],
}


def lift_asm(scratch):
    d = os.path.join(scratch, "lifted")
    if os.path.isdir(d):
        return d
    os.makedirs(d + ".tmp", exist_ok=True)
    for rel, rules in ASM_LIFT.items():
        src = open(os.path.join(REPO, rel)).read()
        for rx, rep in rules:
            src, n = re.subn(rx, rep, src)
        if "__asm__" in src or re.search(r"\basm\b", src):
            raise RuntimeError("asm lifter: unknown inline asm left in %s (cannot encode)" % rel)
        out = os.path.join(d + ".tmp", rel[len("include/"):])
        os.makedirs(os.path.dirname(out), exist_ok=True)
        open(out, "w").write(src)
    try:
        os.rename(d + ".tmp", d)
    except OSError:
        pass
    return d


def limit_mem(gb):
    def f():
        os.setsid()
        b = int(gb * (1 << 30))
        resource.setrlimit(resource.RLIMIT_AS, (b, b))
    return f


def run(cmd, timeout, mem_gb=None, env=None, cwd=None):
    """returns (rc, stdout, stderr, wall, maxrss_kb, timed_out)"""
    t0 = time.time()
    cmd = ["/usr/bin/time", "-f", "VERIF-MAXRSS %M"] + list(cmd)
    p = subprocess.Popen(cmd, stdout=subprocess.PIPE, stderr=subprocess.PIPE, env=env, cwd=cwd,
                         preexec_fn=limit_mem(mem_gb) if mem_gb else os.setsid)
    to = False
    try:
        out, err = p.communicate(timeout=timeout)
    except subprocess.TimeoutExpired:
        to = True
        try:
            os.killpg(p.pid, signal.SIGKILL)
        except ProcessLookupError:
            pass
        out, err = p.communicate()
    out, err = out.decode(errors="replace"), err.decode(errors="replace")
    rss = 0
    m = re.search(r"VERIF-MAXRSS (\d+)\s*$", err)
    if m:
        rss = int(m.group(1))
        err = err[:m.start()]
    return p.returncode, out, err, time.time() - t0, rss, to


class Unit:
    def __init__(self, name, d):
        self.name = name
        self.harness = d.get("harness", [])
        self.sources = d.get("sources", [])
        self.stubs = d.get("stubs", ["base.c", "alloc_direct.c"])
        self.defines = d.get("defines", {})
        self.features = d.get("features", FEATURES_DEFAULT)
        self.cuts = d.get("cuts", [])          # functions whose body is replaced by assume(false)
        self.havoc = d.get("havoc", [])        # functions whose body is replaced by nondet return
        self.pre_include = d.get("pre_include", [])  # -include headers (relative to /verif)
        self.extra_inc = d.get("extra_inc", [])      # extra -I before repo include (relative to /verif)
        self.cflags = d.get("cflags", [])
        self.fp_restrict = d.get("fp_restrict", {})  # call-site label -> exact target list (goto-instrument inserts assert(false) for any other target)
        self.native = d.get("native", True)
        self.native_cflags = d.get("native_cflags", [])
        self.native_stubs = d.get("native_stubs", None)
        self.goto = None
        self.loops = {}
        self.compile_s = 0.0

    def files(self):
        fs = [os.path.join(VERIF, "harness", h) for h in self.harness]
        fs += [os.path.join(VERIF, "stubs", s) for s in self.stubs]
        fs += [os.path.join(VERIF, "engine", "nd_cbmc.c")]
        fs += [os.path.join(REPO, s) for s in self.sources]
        return fs

    def cppflags(self, scratch, native=False):
        gen = gen_config(scratch, self.features)
        fl = []
        for h in self.pre_include:
            fl += ["-include", os.path.join(VERIF, h)]
        fl += ["-I" + os.path.join(VERIF, "engine"), "-I" + os.path.join(VERIF, "stubs")]
        fl += ["-I" + os.path.join(VERIF, x) for x in self.extra_inc]
        if not native:
            fl += ["-I" + lift_asm(scratch)]
        fl += ["-I" + os.path.join(REPO, "include"), "-I" + gen,
               "-I" + os.path.join(REPO, "source/external/libcbor"), "-I" + os.path.join(REPO, "source"),
               "-I" + os.path.join(REPO, "source/external")]
        fl += REAL_DEFINES
        for k, v in self.defines.items():
            fl.append("-D%s" % k if v is None else "-D%s=%s" % (k, v))
        fl += self.cflags
        return fl

    def compile(self, scratch):
        t0 = time.time()
        out = os.path.join(scratch, self.name + ".goto")
        cmd = ["goto-cc", "-std=gnu99", "-o", out] + self.cppflags(scratch) + self.files()
        rc, so, se, w, rss, to = run(cmd, 600)
        if rc != 0 or not os.path.exists(out):
            raise RuntimeError("goto-cc failed for unit %s:\n%s\n%s" % (self.name, so[-3000:], se[-3000:]))
        for fn in self.cuts:
            cmd = ["goto-instrument", "--remove-function-body", fn, out, out]
            rc, so, se, *_ = run(cmd, 300)
            if rc != 0:
                raise RuntimeError("goto-instrument remove-function-body %s failed: %s %s" % (fn, so, se))
        if self.cuts:
            rx = "(" + "|".join(re.escape(f) for f in self.cuts) + ")"
            cmd = ["goto-instrument", "--generate-function-body", rx, "--generate-function-body-options",
                   "assert-false-assume-false", out, out]
            rc, so, se, *_ = run(cmd, 300)
            if rc != 0:
                raise RuntimeError("goto-instrument generate-function-body failed: %s %s" % (so, se))
        if self.fp_restrict:
            # all restrictions in ONE invocation: call-site labels are renumbered after each rewrite
            cmd = ["goto-instrument"]
            sites = {}
            wild = {k[:-len(".function_pointer_call.*")]: v for k, v in self.fp_restrict.items() if k.endswith(".function_pointer_call.*")}
            if wild:
                # "func.function_pointer_call.*": EVERY indirect call site of func (counted in the current goto program, so that a
                # refactoring of /repo that adds or removes a site neither breaks the restriction nor shifts it onto the wrong site)
                rc, so, se, *_ = run(["goto-instrument", "--show-goto-functions", out], 300)
                cur = None
                count = {}
                for line in so.splitlines():
                    m = re.match(r"^(\S+) /\* (\S+) \*/$", line)
                    if m:
                        cur = m.group(2)
                    elif cur in wild and re.search(r"\bCALL (?:.* := )?\*", line):
                        count[cur] = count.get(cur, 0) + 1
                for fn, targets in wild.items():
                    for i in range(count.get(fn, 0)):
                        sites["%s.function_pointer_call.%d" % (fn, i + 1)] = targets
            for site, targets in self.fp_restrict.items():
                if not site.endswith(".function_pointer_call.*"):
                    sites[site] = targets
            for site, targets in sites.items():
                cmd += ["--restrict-function-pointer", "%s/%s" % (site, ",".join(targets))]
            rc, so, se, *_ = run(cmd + [out, out], 300)
            if rc != 0:
                raise RuntimeError("goto-instrument restrict-function-pointer failed: %s %s" % (so[-1500:], se[-1500:]))
        for fn in self.havoc:
            rc, so, se, *_ = run(["goto-instrument", "--remove-function-body", fn, out, out], 300)
            if rc != 0:
                raise RuntimeError("goto-instrument remove-function-body %s failed: %s %s" % (fn, so, se))
        if self.havoc:
            rx = "(" + "|".join(re.escape(f) for f in self.havoc) + ")"
            rc, so, se, *_ = run(["goto-instrument", "--generate-function-body", rx, "--generate-function-body-options", "nondet-return", out, out], 300)
            if rc != 0:
                raise RuntimeError("goto-instrument generate-function-body (havoc) failed: %s %s" % (so, se))
        rc, so, se, *_ = run(["goto-instrument", "--show-loops", out], 300)
        loops = {}
        for m in re.finditer(r"^Loop (\S+)\.(\d+):", so, re.M):
            loops.setdefault(m.group(1), []).append(int(m.group(2)))
        self.loops = loops
        self.goto = out
        self.compile_s = time.time() - t0

    def native_build(self, scratch, entry):
        exe = os.path.join(scratch, "%s.%s.native" % (self.name, entry))
        main_c = os.path.join(scratch, "%s.%s.main.c" % (self.name, entry))
        with open(main_c, "w") as f:
            f.write('#include <stdio.h>\nvoid verif_load(const char*);void %s(void);\n'
                    'int main(int c,char**v){ if(c<2) return 4; verif_load(v[1]); %s(); '
                    'printf("REPLAY-COMPLETED: no assertion failed\\n"); return 0; }\n' % (entry, entry))
        stubs = self.native_stubs if self.native_stubs is not None else self.stubs
        fs = [os.path.join(VERIF, "harness", h) for h in self.harness]
        fs += [os.path.join(VERIF, "stubs", s) for s in stubs]
        fs += [os.path.join(VERIF, "engine", "native_rt.c"), main_c]
        fs += [os.path.join(REPO, s) for s in self.sources]
        cmd = ["gcc", "-std=gnu99", "-g", "-O0", "-w", "-fsanitize=address,undefined", "-fno-sanitize-recover=all",
               "-fno-omit-frame-pointer", "-DVERIF_NATIVE", "-mavx2", "-o", exe] + self.cppflags(scratch, native=True) \
            + self.native_cflags + fs + ["-ffunction-sections", "-fdata-sections", "-Wl,--gc-sections", "-lpthread", "-lm", "-ldl"]
        rc, so, se, *_ = run(cmd, 600)
        if rc != 0:
            return None, (so + se)[-4000:]
        return exe, ""


def unwind_args(unit, job):
    args = []
    uw = job.get("unwind")
    if uw is not None:
        args += ["--unwind", str(uw)]
    sets = []
    for key, k in (job.get("unwindset") or {}).items():
        if key.startswith("recursion:"):
            sets.append("%s:%d" % (key[len("recursion:"):], k))  # CBMC: a bare function name bounds the recursion of that function only
        elif re.search(r"\.\d+$", key):
            sets.append("%s:%d" % (key, k))
        else:
            ids = unit.loops.get(key)
            if ids is None:
                # static functions get a file-qualified name in some cases; match by suffix
                cand = [f for f in unit.loops if f == key or f.endswith("::" + key) or f.endswith("$" + key)]
                for f in cand:
                    for i in unit.loops[f]:
                        sets.append("%s.%d:%d" % (f, i, k))
                continue
            for i in ids:
                sets.append("%s.%d:%d" % (key, i, k))
    if sets:
        args += ["--unwindset", ",".join(sets)]
    return args


BACKENDS = {
    "minisat": [],
    "cadical": ["--sat-solver", "cadical"],
    "kissat": ["--external-sat-solver", "kissat"],
    "z3": ["--z3"],
    "cvc5": ["--cvc5"],
    "cvc5int": ["--cvc5", "--slice-formula"],
}


def cbmc_cmd(unit, job, extra=()):
    cmd = ["cbmc", unit.goto, "--function", job["entry"], "--json-ui", "--unwinding-assertions",
           "--drop-unused-functions", "--no-malloc-may-fail", "--object-bits", str(job.get("object_bits", 10))]
    cmd += unwind_args(unit, job)
    cmd += BACKENDS[job.get("backend", "minisat")]
    cmd += job.get("flags", [])
    cmd += list(extra)
    if "--verbosity" not in cmd:
        cmd += ["--verbosity", "8"]  # statistics messages (symex steps, VCC counts) for the evidence file
    return cmd


def parse_cbmc_json(text, stats=None):
    try:
        o = json.loads(text)
    except Exception:
        return None, None, "unparsable cbmc output"
    res, status, msgs = None, None, []
    _last_stats = stats if stats is not None else {}
    _last_stats.setdefault("steps", 0)
    _last_stats.setdefault("vccs", 0)
    for e in o:
        if isinstance(e, dict):
            mt = e.get("messageText", "")
            m = re.match(r"size of program expression: (\d+) steps", mt)
            if m:
                _last_stats["steps"] = int(m.group(1))
            m = re.match(r"Generated (\d+) VCC", mt)
            if m:
                _last_stats["vccs"] = int(m.group(1))
            if "result" in e:
                res = e["result"]
            if "cProverStatus" in e:
                status = e["cProverStatus"]
            if e.get("messageType") == "ERROR":
                msgs.append(e.get("messageText", ""))
    return res, status, "; ".join(msgs)


def shim_env(scratch):
    d = os.path.join(scratch, "shim")
    if not os.path.isdir(d):
        os.makedirs(d, exist_ok=True)
        p = os.path.join(d, "cvc5")
        with open(p, "w") as f:
            f.write('#!/bin/sh\nexec /usr/bin/cvc5 --solve-bv-as-int=sum "$@"\n')
        os.chmod(p, 0o755)
    env = dict(os.environ)
    env["PATH"] = d + ":" + env["PATH"]
    return env


def run_job(unit, job, scratch, tier):
    """returns dict with verdict details"""
    cap = job.get("timeout", 600 if tier == "quick" else 3000)
    mem = job.get("mem_gb", 12 if tier == "quick" else 24)
    env = shim_env(scratch) if job.get("backend") == "cvc5int" else dict(os.environ)
    env["TMPDIR"] = scratch  # cbmc's CNF files for external SAT solvers (hundreds of MB) die with the scratch directory, also after a time-out
    cmd = cbmc_cmd(unit, job)
    rc, so, se, wall, rss, to = run(cmd, cap, mem, env=env)
    r = dict(entry=job["entry"], unit=unit.name, wall_s=round(wall, 2), max_rss_kb=rss, cmd=" ".join(cmd),
             timed_out=to, rc=rc, failures=[], witnesses_ok=0, witnesses_bad=[], n_props=0, n_success=0,
             broken=None, must_fail_ok=[], backend=job.get("backend", "minisat"))
    if to:
        r["broken"] = "time-out after %ds" % cap
        return r
    if "(error" in so or "(error" in se:
        r["broken"] = "solver reported (error ...)"
        return r
    st_ = {}
    res, status, msgs = parse_cbmc_json(so, st_)
    r["symex_steps"], r["vccs"] = st_.get("steps", 0), st_.get("vccs", 0)
    if rss > mem * 1024 * 1024 * 0.85 or "bad_alloc" in se or "Out of memory" in se or "out of memory" in so:
        r["broken"] = "memory-out (rss %d MB, limit %d GB)" % (rss // 1024, mem)
        return r
    if res is None:
        r["broken"] = "no result from cbmc (rc=%s): %s %s" % (rc, msgs, se[-500:])
        return r
    r["n_props"] = len(res)
    must_fail = list(job.get("must_fail", []))
    seen_must_fail = set()
    # global advisory: forming/comparing the one-past+1 pointer in aws_byte_cursor_next_split (`substr->ptr += len + 1`)
    # is pointer-formation UB by the letter of C; no memory is touched; reported separately, never part of a verdict
    advisory = job.get("advisory", []) + ["pointer relation: pointer outside object bounds in substr->ptr"]
    for p in res:
        desc = p.get("description", "")
        st = p.get("status")
        pid = p.get("property", "")
        if desc.startswith("WITNESS"):
            if st == "FAILURE":
                r["witnesses_ok"] += 1
                r.setdefault("wit_reached", []).append(desc)
            elif job.get("all_witnesses", False):
                r["witnesses_bad"].append(desc)
            else:
                r.setdefault("wit_unreached", []).append(desc)
            continue
        mf = [m for m in must_fail if m in desc]
        if mf:
            if st == "FAILURE":
                seen_must_fail.add(mf[0])
            continue
        if st == "SUCCESS":
            r["n_success"] += 1
            continue
        if st != "FAILURE":
            r["n_unknown"] = r.get("n_unknown", 0) + 1
            continue
        if any(a in desc or a in pid for a in advisory):
            r.setdefault("advisories", []).append(dict(property=pid, description=desc))
            continue
        loc = p.get("sourceLocation", {})
        r["failures"].append(dict(property=pid, description=desc, status=st,
                                  file=loc.get("file"), line=loc.get("line"), function=loc.get("function")))
    for m in must_fail:
        if m not in seen_must_fail:
            r["witnesses_bad"].append("must-fail twin did not fail: " + m)
        else:
            r["must_fail_ok"].append(m)
    uw = [f for f in r["failures"] if f["description"].startswith("unwinding assertion")]
    if uw and not job.get("unwind_is_property"):
        r["broken"] = "unwinding bound too small: " + ", ".join(f["property"] for f in uw[:4])
        return r
    if r["witnesses_bad"]:
        r["broken"] = "vacuity guard: " + "; ".join(r["witnesses_bad"])
    if r.get("n_unknown") and not r["failures"] and not r.get("advisories"):
        r["broken"] = "%d properties left UNKNOWN by cbmc" % r["n_unknown"]
    if r["witnesses_ok"] == 0 and not must_fail and not job.get("no_witness") and not r["failures"]:
        # (a job with a failed assertion is a violation, not a broken harness: CBMC 6 leaves everything after a failed check
        #  UNKNOWN, witnesses included)
        r["broken"] = "harness has no reachable WITNESS"
    return r


def extract_nd(trace):
    vals = []
    for s in trace or []:
        if s.get("stepType") != "assignment":
            continue
        lhs = s.get("lhs", "")
        if lhs.startswith("goto_symex$$return_value$$nd_"):
            v = s.get("value", {})
            b = v.get("binary")
            if b is not None:
                vals.append(int(b, 2))
            else:
                d = re.sub(r"[a-zA-Z]+$", "", str(v.get("data", "0")))
                try:
                    vals.append(int(d) & 0xFFFFFFFFFFFFFFFF)
                except ValueError:
                    vals.append(1 if str(v.get("data")).upper() == "TRUE" else 0)
    return vals


def get_trace(unit, job, prop, scratch, tier):
    cap = job.get("timeout", 600 if tier == "quick" else 3000)
    env = shim_env(scratch) if job.get("backend") == "cvc5int" else dict(os.environ)
    env["TMPDIR"] = scratch
    cmd = cbmc_cmd(unit, job, ["--trace", "--property", prop])
    rc, so, se, wall, rss, to = run(cmd, cap, 24, env=env)
    res, status, msgs = parse_cbmc_json(so)
    if not res:
        return None, []
    for p in res:
        if p.get("property") == prop and p.get("status") == "FAILURE":
            tr = p.get("trace", [])
            summary = []
            for s in tr:
                if s.get("stepType") == "function-call":
                    fn = s.get("function", {}).get("displayName")
                    if fn and not fn.startswith("nd_") and not fn.startswith("__CPROVER"):
                        summary.append("call " + fn)
                elif s.get("stepType") == "failure":
                    loc = s.get("sourceLocation", {})
                    summary.append("FAILURE %s at %s:%s" % (s.get("reason"), loc.get("file"), loc.get("line")))
            return extract_nd(tr), summary[-60:]
    return None, []


def load_known(pid):
    path = os.path.join(VERIF, "known_findings.txt")
    known = []
    if os.path.exists(path):
        for line in open(path):
            line = line.strip()
            if not line or line.startswith("#") or line.startswith("fixed:"):
                continue
            # format: finding: property=<id> entry=<entry> match=<substring of assertion description> :: <what fails>
            m = re.match(r"finding:\s+property=(\S+)\s+entry=(\S+)\s+match=(.+?)\s+::\s+(.*)$", line)
            if m and m.group(1) == pid:
                known.append(dict(entry=m.group(2), match=m.group(3), what=m.group(4)))
    return known


def write_replay(pid, unit, job, fail, vals, summary, tier):
    d = os.path.join(VERIF, "replays", pid)
    os.makedirs(d, exist_ok=True)
    h = hashlib.sha1(("%s|%s|%s" % (job["entry"], fail["description"], vals)).encode()).hexdigest()[:10]
    path = os.path.join(d, "%s-%s.replay" % (job["entry"], h))
    with open(path, "w") as f:
        f.write("# property=%s\n# unit=%s\n# entry=%s\n# tier=%s\n" % (pid, unit.name, job["entry"], tier))
        f.write("# failing=%s :: %s\n" % (fail["property"], fail["description"]))
        f.write("# location=%s:%s (%s)\n" % (fail.get("file"), fail.get("line"), fail.get("function")))
        for s in summary:
            f.write("# trace: %s\n" % s)
        f.write("# nd values follow, one per line, in call order\n")
        for v in vals or []:
            f.write("%d\n" % v)
    return path


def native_replay(unit, entry, scratch, path):
    if not unit.native:
        return "skipped", "unit has no native twin (CBMC-only modelling)"
    exe, err = unit.native_build(scratch, entry)
    if exe is None:
        return "build-failed", err
    env = dict(os.environ)
    env["ASAN_OPTIONS"] = "detect_leaks=0:abort_on_error=0:exitcode=1:allocator_may_return_null=1"
    env["UBSAN_OPTIONS"] = "print_stacktrace=1:halt_on_error=1"
    rc, so, se, wall, rss, to = run([exe, path], 120, None, env=env)
    text = (so + "\n" + se)
    if to:
        return "reproduced", "native run did not terminate within 120 s (hang)\n" + text[-1500:]
    if "REPLAY-ASSERT-FAILED" in text:
        return "reproduced", text[-2000:]
    if "AddressSanitizer" in text or "runtime error" in text or rc < 0 or rc in (134, 139):
        return "reproduced", text[-3000:]
    if rc in (126, 127) or "REPLAY-COMPLETED" not in text and "REPLAY-INFEASIBLE" not in text:
        return "replay-error", text[-1500:]
    if "REPLAY-INFEASIBLE" in text:
        return "infeasible", text[-1500:]
    return "not-reproduced", text[-1500:]


def load_spec(pid, tier):
    p = os.path.join(VERIF, "harness", pid, "spec.py")
    sp = importlib.util.spec_from_file_location("spec_" + pid, p)
    m = importlib.util.module_from_spec(sp)
    sp.loader.exec_module(m)
    return m.spec(tier)


def do_replay(path):
    hdr = {}
    for line in open(path):
        m = re.match(r"# (\w+)=(.*)$", line.strip())
        if m:
            hdr.setdefault(m.group(1), m.group(2))
    pid, entry, unit_name, tier = hdr["property"], hdr["entry"], hdr["unit"], hdr.get("tier", "quick")
    sp = load_spec(pid, tier)
    unit = Unit(unit_name, sp["units"][unit_name])
    scratch = os.path.join(os.environ.get("TMPDIR", "/var/tmp"), "verif.replay.%d" % os.getpid())
    os.makedirs(scratch, exist_ok=True)
    try:
        st, text = native_replay(unit, entry, scratch, path)
        log("replay %s: %s" % (path, st))
        log(text)
        return 1 if st == "reproduced" else 0
    finally:
        shutil.rmtree(scratch, ignore_errors=True)


def main():
    args = sys.argv[1:]
    if args and args[0] == "--replay":
        sys.exit(do_replay(args[1]))
    if not args:
        print(__doc__)
        sys.exit(2)
    pid = args[0]
    tier = os.environ.get("VERIF_TIER", "quick")
    only = None
    keep = False
    i = 1
    while i < len(args):
        if args[i] == "--tier":
            tier = args[i + 1]
            i += 2
        elif args[i] == "--only":
            only = set(args[i + 1].split(","))
            i += 2
        elif args[i] == "--keep":
            keep = True
            i += 1
        else:
            i += 1
    if tier not in ("quick", "thorough"):
        tier = "quick"
    seed = int(os.environ.get("VERIF_SEED", "0") or 0)
    t0 = time.time()
    scratch = os.path.join(os.environ.get("TMPDIR", "/var/tmp"), "verif.%s.%d" % (pid, os.getpid()))
    os.makedirs(scratch, exist_ok=True)
    rc_final = 0
    try:
        sp = load_spec(pid, tier)
        jobs = [j for j in sp["jobs"] if (only is None or j["entry"] in only or j["unit"] in only or (j["unit"] + ":" + j["entry"]) in only)]
        units = {n: Unit(n, d) for n, d in sp["units"].items() if any(j["unit"] == n for j in jobs)}
        # pre-checks (encoder validation etc.): commands that must exit 0
        pre_results = []
        pre_violation = False
        for pc in sp.get("prechecks", []):
            rc, so, se, wall, rss, to = run(["bash", "-c", pc["cmd"]], pc.get("timeout", 300),
                                            env=dict(os.environ, VERIF_SCRATCH=scratch, VERIF_REPO=REPO, VERIF=VERIF))
            pre_results.append(dict(name=pc["name"], rc=rc, wall_s=round(wall, 2), tail=(so + se)[-600:]))
            if rc == pc.get("violation_rc", -999):
                # a solver-based pre-step (asm2smt) found and natively confirmed a counterexample: that is a violation, not a broken check
                d = os.path.join(VERIF, "replays", pid)
                os.makedirs(d, exist_ok=True)
                path = os.path.join(d, "precheck-%s.replay" % hashlib.sha1((so + se).encode()).hexdigest()[:10])
                with open(path, "w") as f:
                    f.write("# property=%s\n# precheck=%s\n" % (pid, pc["name"]))
                    for line in (so + se).splitlines()[-40:]:
                        f.write("# %s\n" % line)
                log((so + se)[-1500:])
                log("VIOLATION property=%s replay=%s" % (pid, path))
                pre_violation = True
            elif rc != 0:
                log("BROKEN precheck %s failed:\n%s" % (pc["name"], (so + se)[-2000:]))
                rc_final = 2
        lift_asm(scratch)
        log("[%s/%s] compiling %d unit(s) from %s ..." % (pid, tier, len(units), REPO))
        with cf.ThreadPoolExecutor(max_workers=NCPU) as ex:
            futs = {ex.submit(u.compile, scratch): u for u in units.values()}
            for f in cf.as_completed(futs):
                f.result()
        log("[%s/%s] compiled in %.1fs; running %d job(s) on %d workers" % (pid, tier, time.time() - t0, len(jobs), NCPU))
        results = []
        workers = max(1, min(NCPU, sp.get("max_parallel", NCPU)))
        with cf.ThreadPoolExecutor(max_workers=workers) as ex:
            futs = {ex.submit(run_job, units[j["unit"]], j, scratch, tier): j for j in jobs}
            for f in cf.as_completed(futs):
                j = futs[f]
                r = f.result()
                r["job"] = j
                results.append(r)
                tag = "ok"
                if r["broken"]:
                    tag = "BROKEN(" + r["broken"] + ")"
                elif r["failures"]:
                    tag = "FAIL x%d" % len(r["failures"])
                log("  %-40s %-8s %7.1fs %6dMB props=%d wit=%d  %s" % (
                    (j["entry"] + " [" + j["unit"] + "]")[:40], r["backend"], r["wall_s"], r["max_rss_kb"] // 1024, r["n_props"], r["witnesses_ok"], tag))
        results.sort(key=lambda r: r["entry"])
        # every witness label must be reachable in at least one obligation of this run
        reached = {w for r in results for w in r.get("wit_reached", [])}
        for r in results:
            if r["broken"] or r["failures"]:
                continue  # a failed assertion cuts off what follows it: unreached witnesses of such a job say nothing about vacuity
            for w in r.get("wit_unreached", []):
                if w not in reached and only is None:
                    r["broken"] = "vacuity guard: witness never reachable in any configuration: " + w
        known = load_known(pid)
        violations, known_hits, broken = [], [], []
        for r in results:
            j = r["job"]
            unit = units[j["unit"]]
            if r["broken"]:
                broken.append("%s: %s" % (r["entry"], r["broken"]))
                continue
            by_desc = {}
            nobody = [fl for fl in r["failures"] if "no body for callee" in fl["description"]]
            if nobody:
                broken.append("%s: %s" % (r["entry"], nobody[0]["description"]))
                continue
            for fl in r["failures"]:
                if "no body for callee" in fl["description"]:
                    broken.append("%s: %s" % (r["entry"], fl["description"]))
                    continue
                if fl["description"].startswith("unwinding assertion") and not j.get("unwind_is_property"):
                    broken.append("%s: unwinding bound too small: %s" % (r["entry"], fl["property"]))
                    continue
                k = [x for x in known if x["entry"] == r["entry"] and x["match"] in fl["description"]]
                if k:
                    known_hits.append((r["entry"], k[0], fl))
                    continue
                by_desc.setdefault((fl["description"], fl.get("file"), fl.get("line")), fl)
            # one replay per distinct failing assertion (at most 3 per job)
            for fl in list(by_desc.values())[:3]:
                vals, summary = get_trace(unit, j, fl["property"], scratch, tier)
                path = write_replay(pid, unit, j, fl, vals, summary, tier)
                st, text = native_replay(unit, r["entry"], scratch, path) if vals is not None else ("no-trace", "")
                with open(path, "a") as f:
                    f.write("# native-replay=%s\n" % st)
                    for line in text.splitlines()[-25:]:
                        f.write("# native: %s\n" % line)
                violations.append(dict(entry=r["entry"], failure=fl, replay=path, native=st))
        seen_known = set()
        for entry, k, fl in known_hits:
            key = (entry, k["match"])
            if key in seen_known:
                continue
            seen_known.add(key)
            log("KNOWN-FINDING: property=%s %s [entry=%s assertion=%s]" % (pid, k["what"], entry, fl["description"]))
        for b in broken:
            log("BROKEN: %s" % b)
        for v in violations:
            log("  counterexample: entry=%s assertion='%s' at %s:%s native-replay=%s" % (
                v["entry"], v["failure"]["description"], v["failure"].get("file"), v["failure"].get("line"), v["native"]))
            log("VIOLATION property=%s replay=%s" % (pid, v["replay"]))
        if violations or pre_violation:
            rc_final = 1
        elif broken and rc_final == 0:
            rc_final = 2
        # ---------------- evidence
        n_props = sum(r["n_props"] for r in results)
        n_succ = sum(r["n_success"] for r in results)
        nontrivial = sum(r["witnesses_ok"] + len(r["must_fail_ok"]) for r in results if not r["broken"])
        samples = []
        for r in results[:400]:
            j = r["job"]
            samples.append(dict(obligation=r["entry"], unit=j["unit"], what=j.get("what", ""), bounds=j.get("bounds", ""),
                                unwind=j.get("unwind"), unwindset=j.get("unwindset"), backend=r["backend"],
                                cbmc_properties=r["n_props"], succeeded=r["n_success"],
                                witnesses_reached=r["witnesses_ok"], must_fail_twins=r["must_fail_ok"],
                                solver_wall_s=r["wall_s"], max_rss_kb=r["max_rss_kb"],
                                status="broken: " + r["broken"] if r["broken"] else
                                ("FAILED" if r["failures"] else "held")))
        # one concrete witness assignment (a real case inside the explored space)
        wsample = None
        traces_validated = sum(1 for v in violations if v["native"] == "reproduced")
        for r in results:
            if r["broken"] or r["witnesses_ok"] == 0 or sp.get("no_witness_sample"):
                continue
            j = r["job"]
            unit = units[j["unit"]]
            cmd = cbmc_cmd(unit, j)
            # find a witness property id
            rc, so, se, *_ = run(cmd + ["--show-properties"], 120, 8)
            try:
                props = json.loads(so)
                wid = None
                for e in props:
                    if isinstance(e, dict) and "properties" in e:
                        for p in e["properties"]:
                            if p.get("description", "").startswith("WITNESS"):
                                wid = p["name"]
                                break
                if wid:
                    vals, summary = get_trace(unit, j, wid, scratch, "quick")
                    if vals is not None:
                        wsample = dict(obligation=r["entry"], witness=wid, nd_values_first_32=vals[:32])
                        # replay this solver-produced trace against the native ASan/UBSan build of the real code:
                        # CBMC says every real assertion holds on it, the implementation must agree
                        wpath = os.path.join(scratch, "witness.replay")
                        with open(wpath, "w") as wf:
                            wf.write("# property=%s\n# unit=%s\n# entry=%s\n" % (pid, unit.name, r["entry"]))
                            for v in vals:
                                wf.write("%d\n" % v)
                        wst, wtext = native_replay(unit, r["entry"], scratch, wpath)
                        wsample["native_replay_of_witness_trace"] = wst + (" (completed, all assertions hold natively)" if wst == "not-reproduced" else "")
                        if wst == "not-reproduced":
                            traces_validated += 1
            except Exception:
                pass
            break
        if wsample:
            samples.insert(0, wsample)
        srcs = sorted({s for u in units.values() for s in u.sources})
        meta = sp.get("meta", {})
        ev = dict(
            property_id=pid, tier=tier, seed=seed, level="model_checking",
            coverage=dict(
                evaluations=n_props,
                distinct_nontrivial=nontrivial,
                rule="evaluations = CBMC properties (assertions, pointer/bounds/overflow checks, unwinding assertions) "
                     "decided by the solver over all symbolic inputs within the bounds; distinct_nontrivial = number of "
                     "distinct vacuity witnesses (an assert(0) placed in a named interesting branch after the real "
                     "assertions, or a mutated-spec twin) that the solver showed reachable/failing in this run, i.e. "
                     "distinct behaviour classes (exact fit, one short, overflow, growth, ...) proven to lie inside the explored space",
                samples=samples,
                states=max(1, sum(r.get("symex_steps", 0) for r in results)),
                transitions=max(1, sum(r.get("vccs", 0) for r in results)),
                traces_validated_against_impl=traces_validated,
                states_transitions_meaning="states = symbolic-execution steps of the unwound programs (CBMC 'size of program expression'), "
                                           "transitions = verification conditions generated from them; both summed over this run's obligations; "
                                           "traces_validated_against_impl = solver traces (witness sample, counterexamples) replayed on the native "
                                           "ASan/UBSan build of the real sources with the outcome CBMC predicted",
                obligations=len(results),
                discharged=sum(1 for r in results if not r["broken"] and not r["failures"]),
                cbmc_properties_succeeded=n_succ,
                functions_encoded=meta.get("functions_encoded", []),
                source_files={s: sha256(os.path.join(REPO, s)) for s in srcs if os.path.exists(os.path.join(REPO, s))},
                bounds=meta.get("bounds", ""),
                outside_claim=meta.get("out", []),
                stubs=meta.get("stubs", []),
                cuts=meta.get("cuts", []),
                prechecks=pre_results,
                solver="cbmc 6.11.0 (SAT: minisat2 built-in unless stated per obligation; cvc5int = cvc5 1.0.3 --solve-bv-as-int=sum)",
                solver_s=round(sum(r["wall_s"] for r in results), 1),
                max_rss_kb=max([r["max_rss_kb"] for r in results] or [0]),
                known_findings_hit=[k["what"] for _, k, _ in known_hits],
                violations=[dict(entry=v["entry"], assertion=v["failure"]["description"], replay=v["replay"],
                                 native=v["native"]) for v in violations],
                broken=broken,
                exhaustive=False,
            ),
            assumptions=meta.get("assumptions", []) + [
                "cbmc 6.11.0 front end, symbolic execution and bit-blasting are sound",
                "results hold only within the stated unwinding/size bounds; unwinding assertions are on",
                "harness allocator never returns NULL (aws_mem_acquire aborts on OOM, so OOM is not an API outcome)",
            ],
            wall_s=round(time.time() - t0, 2),
            violations=len(violations),
        )
        os.makedirs(os.path.join(VERIF, "evidence"), exist_ok=True)
        with open(os.path.join(VERIF, "evidence", pid + ".json"), "w") as f:
            json.dump(ev, f, indent=1)
        log("[%s/%s] %d obligations, %d CBMC properties, %d held, %d violation(s), %d broken, %d known; wall %.1fs; exit %d" % (
            pid, tier, len(results), n_props, ev["coverage"]["discharged"], len(violations), len(broken),
            len(seen_known), time.time() - t0, rc_final))
    except Exception as e:
        import traceback
        traceback.print_exc()
        log("BROKEN: engine error: %s" % e)
        rc_final = 2
    finally:
        if not keep:
            shutil.rmtree(scratch, ignore_errors=True)
        else:
            log("scratch kept: " + scratch)
    sys.exit(rc_final)


if __name__ == "__main__":
    main()
