#!/usr/bin/env python3-vt
"""
E2 asm2smt: decide the x86-64 inline-assembly variant of the checked arithmetic
(include/aws/common/math.gcc_x64_asm.inl) with z3.

On every run the __asm__ statements are parsed out of /repo's current header
(template text, operand constraints), executed symbolically over 64-bit
bit-vectors with CF/OF, and for each function z3 is asked for an operand pair
on which the result differs from the mathematical spec (exact-or-flagged /
exact-or-saturated).  unsat == holds for all 2^128 (2^64) operand pairs.

Translator validation: the same header is compiled natively with gcc and run on
an edge-value operand table; the encoding, evaluated on the same operands, must
agree bit for bit with the CPU.

Instruction subset: mulq mull addq addl seto setc cmovc jnc mov(imm->reg).
Anything else in a template => refuse (exit 2), never guess.
exit 0 all proved; 1 counterexample (printed, with native confirmation); 2 cannot encode.
"""
import os
import re
import subprocess
import sys
import tempfile
import time

import z3

REPO = os.environ.get("VERIF_REPO", "/repo")
HDR = os.path.join(REPO, "include/aws/common/math.gcc_x64_asm.inl")


def die(msg):
    print("asm2smt: CANNOT ENCODE: " + msg)
    sys.exit(2)


def parse_functions(src):
    funcs = []
    for m in re.finditer(r"AWS_STATIC_IMPL\s+(\w+)\s+(aws_\w+)\(([^)]*)\)\s*\{", src):
        rtype, name, params = m.group(1), m.group(2), m.group(3)
        depth, i = 1, m.end()
        while depth and i < len(src):
            depth += {"{": 1, "}": -1}.get(src[i], 0)
            i += 1
        body = src[m.end():i - 1]
        if "__asm__" not in body:
            continue
        am = re.search(r"__asm__\s*\((.*?)\);\s*\n", body, re.S)
        if not am:
            die("no asm statement terminator in " + name)
        asm = re.sub(r"/\*.*?\*/", "", am.group(1), flags=re.S)
        # split the four colon-separated sections (colons inside string literals do not occur here)
        parts, cur, instr = [], "", False
        for ch in asm:
            if ch == '"':
                instr = not instr
            if ch == ":" and not instr:
                parts.append(cur)
                cur = ""
            else:
                cur += ch
        parts.append(cur)
        if len(parts) < 3:
            die("unexpected asm sections in " + name)
        template = "".join(re.findall(r'"((?:[^"\\]|\\.)*)"', parts[0])).replace("\\n", "\n")
        ops = []
        for sec, is_out in ((parts[1], True), (parts[2], False)):
            for om in re.finditer(r'(?:\[(\w+)\]\s*)?"([^"]+)"\s*\(([^()]*(?:\([^()]*\))?[^()]*)\)', sec):
                ops.append(dict(name=om.group(1), cons=om.group(2), expr=om.group(3).strip(), out=is_out))
        post = body[am.end():]
        pre = body[:am.start()]
        funcs.append(dict(name=name, rtype=rtype, params=[p.strip() for p in params.split(",")], template=template,
                          ops=ops, pre=pre, post=post, clobbers=parts[3] if len(parts) > 3 else ""))
    return funcs


class Machine:
    def __init__(self):
        self.r = {}
        self.CF = z3.BoolVal(False)
        self.OF = z3.BoolVal(False)
        self.n = 0

    def fresh(self, nm):
        self.n += 1
        return z3.BitVec("%s_%d" % (nm, self.n), 64)


def width_of(ctype):
    return {"uint64_t": 64, "uint32_t": 32, "char": 8}.get(ctype)


def encode(f, A, B):
    """returns dict var->z3 value after the asm, for C variables; A,B are 64-bit operands (a,b)"""
    ctypes = {}
    for p in f["params"]:
        t, v = p.rsplit(" ", 1)
        ctypes[v.strip("*")] = t.strip()
    for dm in re.finditer(r"\b(uint64_t|uint32_t|char)\s+(\w+)(?:\s*=\s*(\w+))?;", f["pre"]):
        ctypes[dm.group(2)] = dm.group(1)
    w = 64 if "u64" in f["name"] else 32
    env = {"a": A if w == 64 else z3.ZeroExt(32, z3.Extract(31, 0, A)), "b": B if w == 64 else z3.ZeroExt(32, z3.Extract(31, 0, B))}
    for dm in re.finditer(r"\b(uint64_t|uint32_t|char)\s+(\w+)\s*=\s*(\w+);", f["pre"]):
        env[dm.group(2)] = env[dm.group(3)]
    M = Machine()
    regs = {}  # operand index/name -> register key
    for i, o in enumerate(f["ops"]):
        c = o["cons"].replace("&", "").replace("+", "").replace("=", "")
        if c == "a":
            reg = "rax"
        elif c == "d":
            reg = "rdx"
        elif c in ("r", "rm"):
            reg = "op%d" % i
        else:
            die("constraint %r in %s" % (o["cons"], f["name"]))
        o["reg"] = reg
        regs[str(i)] = reg
        if o["name"]:
            regs[o["name"]] = reg
        is_input = (not o["out"]) or "+" in o["cons"]
        if is_input:
            e = o["expr"]
            if e in env:
                M.r[reg] = env[e]
            elif e == "~0LL":
                M.r[reg] = z3.BitVecVal(2 ** 64 - 1, 64)
            else:
                die("input expression %r in %s" % (e, f["name"]))
        else:
            M.r[reg] = M.fresh("undef")  # output-only register: arbitrary initial value
    if "rax" not in M.r:
        M.r["rax"] = M.fresh("rax")
    if "rdx" not in M.r:
        M.r["rdx"] = M.fresh("rdx")

    def operand(tok):
        tok = tok.strip()
        m = re.match(r"%([qk]?)\[(\w+)\]$", tok)
        if m:
            return regs[m.group(2)], m.group(1)
        m = re.match(r"%%(r|e)(ax|dx)$", tok)
        if m:
            return "r" + m.group(2), ("q" if m.group(1) == "r" else "k")
        die("operand %r in %s" % (tok, f["name"]))

    lines = [l.strip() for l in f["template"].split("\n") if l.strip()]
    skip_cond = None  # (label, condition under which following instructions are SKIPPED)
    for ln in lines:
        lm = re.match(r"(\.\w+%=):$", ln)
        if lm:
            if skip_cond and skip_cond[0] == lm.group(1):
                skip_cond = None
            continue
        mn, _, rest = ln.partition(" ")
        args = [x.strip() for x in rest.split(",")] if rest else []
        guard = z3.Not(skip_cond[1]) if skip_cond else None  # instruction executes iff guard

        def write(reg, val):
            M.r[reg] = val if guard is None else z3.If(guard, val, M.r[reg])

        if mn == "mulq":
            src, _ = operand(args[0])
            prod = z3.ZeroExt(64, M.r["rax"]) * z3.ZeroExt(64, M.r[src])
            hi, lo = z3.Extract(127, 64, prod), z3.Extract(63, 0, prod)
            if guard is not None:
                die("guarded mul")
            M.r["rax"], M.r["rdx"] = lo, hi
            M.CF = M.OF = hi != 0
        elif mn == "mull":
            src, _ = operand(args[0])
            prod = z3.ZeroExt(32, z3.Extract(31, 0, M.r["rax"])) * z3.ZeroExt(32, z3.Extract(31, 0, M.r[src]))
            hi, lo = z3.Extract(63, 32, prod), z3.Extract(31, 0, prod)
            if guard is not None:
                die("guarded mul")
            M.r["rax"], M.r["rdx"] = z3.ZeroExt(32, lo), z3.ZeroExt(32, hi)  # 32-bit writes zero-extend
            M.CF = M.OF = hi != 0
        elif mn in ("addq", "addl"):
            s, _ = operand(args[0])
            d, _ = operand(args[1])
            if guard is not None:
                die("guarded add")
            if mn == "addq":
                full = z3.ZeroExt(1, M.r[d]) + z3.ZeroExt(1, M.r[s])
                a_, b_ = M.r[d], M.r[s]
                M.r[d] = z3.Extract(63, 0, full)
                M.CF = z3.Extract(64, 64, full) == 1
                sa, sb, sr = z3.Extract(63, 63, a_), z3.Extract(63, 63, b_), z3.Extract(63, 63, M.r[d])
                M.OF = z3.And(sa == sb, sr != sa)  # signed overflow
            else:
                full = z3.ZeroExt(1, z3.Extract(31, 0, M.r[d])) + z3.ZeroExt(1, z3.Extract(31, 0, M.r[s]))
                a_, b_ = z3.Extract(31, 0, M.r[d]), z3.Extract(31, 0, M.r[s])
                M.r[d] = z3.ZeroExt(32, z3.Extract(31, 0, full))
                M.CF = z3.Extract(32, 32, full) == 1
                sa, sb, sr = z3.Extract(31, 31, a_), z3.Extract(31, 31, b_), z3.Extract(31, 31, M.r[d])
                M.OF = z3.And(sa == sb, sr != sa)  # signed overflow
        elif mn in ("seto", "setc"):
            d, _ = operand(args[0])
            fl = M.OF if mn == "seto" else M.CF
            write(d, z3.Concat(z3.Extract(63, 8, M.r[d]), z3.If(fl, z3.BitVecVal(1, 8), z3.BitVecVal(0, 8))))
        elif mn == "cmovc":
            s, _ = operand(args[0])
            d, _ = operand(args[1])
            write(d, z3.If(M.CF, M.r[s], M.r[d]))
        elif mn == "jnc":
            skip_cond = (args[0], z3.Not(M.CF))
        elif mn == "mov":
            im = re.match(r"\$(0x[0-9A-Fa-f]+|\d+)$", args[0])
            d, sz = operand(args[1])
            if not im or sz != "k":
                die("mov form %r in %s" % (ln, f["name"]))
            write(d, z3.BitVecVal(int(im.group(1), 0) & 0xFFFFFFFF, 64))  # 32-bit write zero-extends
        else:
            die("instruction %r in %s" % (ln, f["name"]))
    if skip_cond:
        die("unterminated jump in " + f["name"])
    out = {}
    for o in f["ops"]:
        if o["out"]:
            wv = width_of(ctypes.get(o["expr"], ""))
            if not wv:
                die("type of output %r in %s" % (o["expr"], f["name"]))
            out[o["expr"]] = z3.Extract(wv - 1, 0, M.r[o["reg"]])
    return out, w


def semantics(f, A, B):
    """(kind, result_bv(w), flag_bool or None)"""
    out, w = encode(f, A, B)
    post = f["post"]
    m = re.search(r"\*r\s*=\s*(\w+);", post)
    if m and re.search(r"if\s*\(\s*flag\s*\)", post):
        return "checked", out[m.group(1)], out["flag"] != 0, w
    m = re.search(r"return\s+(\w+);", post)
    if m:
        return "saturating", out[m.group(1)], None, w
    die("result pattern after asm in " + f["name"])


def spec(f, A, B, w):
    a = z3.ZeroExt(w, z3.Extract(w - 1, 0, A))
    b = z3.ZeroExt(w, z3.Extract(w - 1, 0, B))
    exact = a * b if "_mul_" in f["name"] else a + b
    fits = z3.Extract(2 * w - 1, w, exact) == 0
    return z3.Extract(w - 1, 0, exact), fits


EDGE64 = sorted({v & (2 ** 64 - 1) for k in range(0, 65) for v in (2 ** k - 1, 2 ** k, 2 ** k + 1)} |
                {0, 1, 2, 3, 10, 2 ** 64 - 2, 2 ** 64 - 1, (2 ** 64 - 1) // 3, (2 ** 64 - 1) // 3 + 1, 0xFFFFFFFF, 0x100000000})


def native_table(funcs):
    """run the real asm on an operand table; returns {name: [(a,b,res,flag)]}"""
    lines = ['#include <stdio.h>', '#include <inttypes.h>', '#include <aws/common/math.h>']
    for f in funcs:
        lines.append("#define %s asm_%s" % (f["name"], f["name"]))
    lines.append('#include <aws/common/math.gcc_x64_asm.inl>')
    lines.append("void aws_fatal_assert(const char *c, const char *f, int l) { (void)c; (void)f; (void)l; __builtin_trap(); }")
    lines.append("static const uint64_t T[] = {%s};" % ",".join("%dULL" % v for v in EDGE64))
    lines.append("int main(void){ size_t n=sizeof T/sizeof T[0]; for(size_t i=0;i<n;i++) for(size_t j=0;j<n;j++){ uint64_t a=T[i],b=T[j];")
    for f in funcs:
        t = "uint64_t" if "u64" in f["name"] else "uint32_t"
        if "checked" in f["name"]:
            lines.append('{ %s r=0; int rc=asm_%s((%s)a,(%s)b,&r); printf("%s %%" PRIu64 " %%" PRIu64 " %%" PRIu64 " %%d\\n",a,b,(uint64_t)r,rc!=0); }' % (t, f["name"], t, t, f["name"]))
        else:
            lines.append('{ %s r=asm_%s((%s)a,(%s)b); printf("%s %%" PRIu64 " %%" PRIu64 " %%" PRIu64 " -1\\n",a,b,(uint64_t)r); }' % (t, f["name"], t, t, f["name"]))
    lines.append("} return 0; }")
    d = tempfile.mkdtemp(prefix="asm2smt.", dir=os.environ.get("VERIF_SCRATCH", os.environ.get("TMPDIR", "/var/tmp")))
    try:
        src = os.path.join(d, "t.c")
        open(src, "w").write("\n".join(lines))
        gen = os.path.join(d, "gen", "aws", "common")
        os.makedirs(gen)
        cfg = open(os.path.join(REPO, "include/aws/common/config.h.in")).read()
        cfg = re.sub(r"#cmakedefine (AWS_HAVE_GCC_OVERFLOW_MATH_EXTENSIONS|AWS_HAVE_GCC_INLINE_ASM)", r"#define \1", cfg)
        cfg = re.sub(r"#cmakedefine (\w+)", r"/* #undef \1 */", cfg)
        open(os.path.join(gen, "config.h"), "w").write(cfg)
        exe = os.path.join(d, "t")
        subprocess.check_call(["gcc", "-O1", "-w", "-I" + os.path.join(REPO, "include"), "-I" + os.path.join(d, "gen"), src,
                               os.path.join(REPO, "source/error.c"), "-ffunction-sections", "-fdata-sections", "-Wl,--gc-sections", "-o", exe])
        out = subprocess.check_output([exe]).decode()
    finally:
        subprocess.call(["rm", "-rf", d])
    tab = {}
    for ln in out.splitlines():
        n, a, b, r, fl = ln.split()
        tab.setdefault(n, []).append((int(a), int(b), int(r), int(fl)))
    return tab


def main():
    t0 = time.time()
    src = open(HDR).read()
    funcs = parse_functions(src)
    if len(funcs) < 8:
        die("expected 8 asm functions, found %d" % len(funcs))
    A, B = z3.BitVecs("A B", 64)
    rc = 0
    enc = {}
    for f in funcs:
        kind, res, flag, w = semantics(f, A, B)
        enc[f["name"]] = (kind, res, flag, w)
        ex, fits = spec(f, A, B, w)
        s = z3.Solver()
        maxv = z3.BitVecVal(2 ** w - 1, w)
        if kind == "checked":
            bad = z3.Or(flag != z3.Not(fits), z3.And(fits, res != ex))
        else:
            bad = res != z3.If(fits, ex, maxv)
        s.add(bad)
        t1 = time.time()
        r = s.check()
        print("asm2smt: %-26s %-10s %d instr  query: exists operands violating exact-or-%s ? %s  (%.2fs)" % (
            f["name"], kind, len([l for l in f["template"].split(chr(10)) if l.strip()]),
            "flagged" if kind == "checked" else "saturated", r, time.time() - t1))
        if r == z3.sat:
            m = s.model()
            print("asm2smt: COUNTEREXAMPLE %s a=%s b=%s" % (f["name"], m[A], m[B]))
            rc = 1
        elif r != z3.unsat:
            print("asm2smt: solver returned %s" % r)
            rc = max(rc, 2)
    # translator validation against the CPU
    tab = native_table(funcs)
    checked = 0
    for f in funcs:
        kind, res, flag, w = enc[f["name"]]
        for (a, b, r, fl) in tab[f["name"]][::7] + tab[f["name"]][:50]:
            sub = [(A, z3.BitVecVal(a, 64)), (B, z3.BitVecVal(b, 64))]
            rv = z3.simplify(z3.substitute(res, *sub))
            # undefined initial registers never influence outputs; if they did, simplify would leave a term
            if not z3.is_bv_value(rv):
                die("output of %s depends on an undefined register" % f["name"])
            ok = rv.as_long() == r
            if kind == "checked":
                fv = z3.simplify(z3.substitute(flag, *sub))
                ok = ok and (z3.is_true(fv) == bool(fl))
            checked += 1
            if not ok:
                print("asm2smt: TRANSLATOR MISMATCH %s a=%d b=%d cpu=(%d,%d) encoding=%s" % (f["name"], a, b, r, fl, rv))
                rc = max(rc, 2)
    print("asm2smt: translator validated on %d native executions; %d functions; total %.1fs; exit %d" % (checked, len(funcs), time.time() - t0, rc))
    sys.exit(rc)


if __name__ == "__main__":
    main()
