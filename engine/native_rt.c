/* native replay runtime: nd_* values are read from the replay file (one
 * unsigned decimal per line after the header lines starting with '#'). */
#ifdef VERIF_NATIVE
#include "verif.h"
#include <string.h>
static uint64_t *vals;
static size_t nvals, pos;
static int want_witness;
void verif_load(const char *path) {
    FILE *f = fopen(path, "r");
    if (!f) { fprintf(stderr, "REPLAY: cannot open %s\n", path); exit(4); }
    char line[256];
    size_t cap = 0;
    while (fgets(line, sizeof line, f)) {
        if (line[0] == '#' || line[0] == '\n') continue;
        if (nvals == cap) { cap = cap ? cap * 2 : 64; vals = realloc(vals, cap * sizeof *vals); }
        vals[nvals++] = strtoull(line, NULL, 10);
    }
    fclose(f);
}
uint64_t verif_next(void) { return pos < nvals ? vals[pos++] : 0; }
void verif_fail(const char *msg, const char *file, int line) {
    printf("REPLAY-ASSERT-FAILED: %s (%s:%d)\n", msg, file, line);
    fflush(stdout);
    _Exit(1);
}
void verif_infeasible(const char *file, int line) {
    printf("REPLAY-INFEASIBLE: assumption false at %s:%d\n", file, line);
    fflush(stdout);
    _Exit(3);
}
void verif_witness(const char *msg) { (void)msg; }
#endif
