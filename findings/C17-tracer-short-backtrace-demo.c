/* C17: tracer at level STACKS with frames_per_stack = 1 while backtrace() yields only 2 frames (the "pathological" case the code
 * itself documents): the stack record has room for 1 frame but 2 are copied into it. Built with -fsanitize=address. */
#include <aws/common/allocator.h>
#include <aws/common/common.h>
#include <stdio.h>
#include <string.h>
/* a platform whose unwinder returns at most two frames */
int backtrace(void **buf, int n) { int k = n < 2 ? n : 2; for (int i = 0; i < k; ++i) buf[i] = (void *)(size_t)(0x1000 + i); return k; }
int main(void) {
    aws_common_library_init(aws_default_allocator());
    struct aws_allocator *t = aws_mem_tracer_new(aws_default_allocator(), NULL, AWS_MEMTRACE_STACKS, 1);
    void *p = aws_mem_acquire(t, 16);
    memset(p, 1, 16);
    printf("bytes=%zu count=%zu\n", aws_mem_tracer_bytes(t), aws_mem_tracer_count(t));
    aws_mem_release(t, p);
    aws_mem_tracer_destroy(t);
    aws_common_library_clean_up();
    puts("PASS");
    return 0;
}
