/* CBMC 6.11 ships no model of memchr: plain byte loop with the libc contract
 * (reads at most n bytes, stops at the first match). */
#include "verif.h"
#include <string.h>
#ifndef VERIF_NATIVE
void *memchr(const void *s, int c, size_t n) {
    const uint8_t *p = s;
    for (size_t i = 0; i < n; ++i)
        if (p[i] == (uint8_t)c) return (void *)(p + i);
    return NULL;
}
#endif
