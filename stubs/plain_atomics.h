/* force-included where atomics are not the subject: GNU atomic builtins as plain accesses (single flow of control, SC).
 * CBMC's generic model of __atomic_store_n on a heap object made symbolic execution stall (C14 gate harness). */
#ifndef VERIF_PLAIN_ATOMICS_H
#define VERIF_PLAIN_ATOMICS_H
#define __atomic_load_n(ptr, mo) (*(ptr))
#define __atomic_store_n(ptr, val, mo) ((void)(*(ptr) = (val)))
#endif
