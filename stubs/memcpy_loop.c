/* memcpy/memset/memcmp as plain byte loops (bound: VERIF_MEMLOOP_MAX iterations,
 * enforced by the unwinding assertion).  Used where CBMC's array-theory model of
 * memcpy does not terminate (source and destination inside the same object).
 * The C requirement "regions must not overlap" is asserted. */
#include "verif.h"
#include <string.h>
#ifndef VERIF_NATIVE
void *memcpy(void *dst, const void *src, size_t n) {
    const uint8_t *s = src;
    uint8_t *d = dst;
    if (n > 0)
        ASSERT(!__CPROVER_same_object(d, s) || d + n <= s || s + n <= d, "memcpy: regions do not overlap");
    for (size_t i = 0; i < n; ++i) d[i] = s[i];
    return dst;
}
void *memset(void *dst, int c, size_t n) {
    uint8_t *d = dst;
    for (size_t i = 0; i < n; ++i) d[i] = (uint8_t)c;
    return dst;
}
#endif
