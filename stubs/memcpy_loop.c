/* memcpy/memset/memcmp as plain byte loops (bound: VERIF_MEMLOOP_MAX iterations,
 * enforced by the unwinding assertion).  Used where CBMC's array-theory model of
 * memcpy does not terminate (source and destination inside the same object).
 * The C requirement "regions must not overlap" is asserted. */
#include "verif.h"
#include <string.h>
#ifndef VERIF_NATIVE
void *memcpy(void *dst, const void *src, size_t n) {
    const uint8_t *s = src;
    uint8_t *d = dst;
    if (n > 0)
        ASSERT(!__CPROVER_same_object(d, s) || d + n <= s || s + n <= d, "memcpy: regions do not overlap");
    for (size_t i = 0; i < n; ++i) d[i] = s[i];
    return dst;
}
void *memmove(void *dst, const void *src, size_t n) {
    const uint8_t *s = src;
    uint8_t *d = dst;
    if (n == 0) return dst;
    if (__CPROVER_same_object(d, s) && d > s) {
        for (size_t i = n; i > 0; --i) d[i - 1] = s[i - 1];
    } else {
        for (size_t i = 0; i < n; ++i) d[i] = s[i];
    }
    return dst;
}
void *memset(void *s, int c, size_t n) {
__CPROVER_HIDE:;
    if (n == 0) return s;
    __CPROVER_precondition(__CPROVER_w_ok(s, n), "memset destination region writeable");
    char *sp = s;
    __CPROVER_size_t s_n = n;
    char arr[s_n];
    __CPROVER_array_set(arr, c);
    __CPROVER_array_replace(sp, arr);
    return s;
}
#endif
