/* Direct model of source/allocator.c's front API for properties whose subject
 * is not the allocator: aws_mem_acquire/calloc/realloc/release go straight to
 * malloc/calloc/realloc/free (no vtable indirection), keep the real functions'
 * fatal preconditions (size 0 / NULL allocator => the library aborts => ASSERT),
 * and never return NULL (the real ones panic on OOM).
 * With -DVERIF_ALLOC_TRACK the sizes of live blocks are tracked (<= 8 blocks) so
 * a harness can check "zeroed before release" (verif_release_hook).
 */
#include "verif.h"
#include <aws/common/common.h>
#include <stdarg.h>
#include <stdlib.h>
#include <string.h>

#if defined(VERIF_TYPED_CALLOC) || defined(VERIF_TYPED_ACQUIRE)
#    define VERIF_TYPED_RELEASE 1
bool verif_typed_release(void *p);       /* harness: true if p came from a typed pool (then it is not passed to free) */
#endif
#ifdef VERIF_TYPED_CALLOC
void *verif_typed_calloc(size_t size);   /* harness: typed zeroed object for this size, or NULL */
#endif
#if defined(VERIF_TYPED_ACQUIRE_MANY) || defined(VERIF_TYPED_ACQUIRE)
void *verif_typed_acquire(size_t size);  /* harness: typed object with ARBITRARY contents (acquire does not zero), or NULL */
#endif
static struct aws_allocator s_verif_alloc; /* identity only; vtable unused */
struct aws_allocator *verif_allocator(void) { return &s_verif_alloc; }
struct aws_allocator *aws_default_allocator(void) { return &s_verif_alloc; }
bool aws_allocator_is_valid(const struct aws_allocator *alloc) { return alloc != NULL; }

#ifdef VERIF_ALLOC_TRACK
#    define VT_MAX 8
struct verif_blk verif_blocks[VT_MAX];
size_t verif_nblocks;
static void vt_add(void *p, size_t n) {
    if (verif_nblocks < VT_MAX) { verif_blocks[verif_nblocks].p = p; verif_blocks[verif_nblocks].n = n; verif_nblocks++; }
}
static void vt_del(void *p) {
    for (size_t i = 0; i < VT_MAX; ++i)
        if (i < verif_nblocks && verif_blocks[i].p == p) { verif_release_hook(p, verif_blocks[i].n); verif_blocks[i].p = NULL; return; }
}
#else
#    define vt_add(p, n)
#    define vt_del(p)
#endif

/* VERIF_ALLOC_SIZES: a size that is constant in every execution but that CBMC cannot fold syntactically (e.g. computed from a
 * struct copied out of a heap object) would create an object of SYMBOLIC size, which goes through the array theory and does not
 * fit in memory.  Listing the candidate constants turns it into a case split over constant-size objects; any other size falls
 * through to the general allocation, so nothing is assumed. */
static void *verif_alloc_split(size_t size) {
#ifdef VERIF_ALLOC_SIZES
    static const size_t cand[] = {VERIF_ALLOC_SIZES};
    for (size_t i = 0; i < sizeof(cand) / sizeof(cand[0]); ++i)
        if (size == cand[i]) return verif_malloc(cand[i]);
#endif
    return verif_malloc(size);
}
void *aws_mem_acquire(struct aws_allocator *allocator, size_t size) {
    ASSERT(allocator != NULL, "aws_mem_acquire: NULL allocator (library aborts)");
    ASSERT(size != 0, "aws_mem_acquire: size 0 (library aborts)");
#ifdef VERIF_TYPED_ACQUIRE
    { void *tp = verif_typed_acquire(size); if (tp) { vt_add(tp, size); return tp; } }
#endif
    void *p = verif_alloc_split(size);
    vt_add(p, size);
    return p;
}
void *aws_mem_calloc(struct aws_allocator *allocator, size_t num, size_t size) {
    ASSERT(allocator != NULL, "aws_mem_calloc: NULL allocator (library aborts)");
    ASSERT(num != 0 && size != 0, "aws_mem_calloc: zero size (library aborts)");
    size_t tot;
    ASSERT(!__builtin_mul_overflow(num, size, &tot), "aws_mem_calloc: size overflow (library aborts)");
#ifdef VERIF_TYPED_CALLOC
    /* the harness may hand out a statically TYPED, zeroed object for this size (objects allocated through a generic wrapper are byte
     * arrays for CBMC, which makes every field access a byte-extract) */
    void *tp = verif_typed_calloc(tot);
    if (tp) { vt_add(tp, tot); return tp; }
#endif
    void *p = verif_alloc_split(tot);
    memset(p, 0, tot);
    vt_add(p, tot);
    return p;
}
void aws_mem_release(struct aws_allocator *allocator, void *ptr) {
    ASSERT(allocator != NULL, "aws_mem_release: NULL allocator (library aborts)");
#ifdef VERIF_NO_FREE
    /* released blocks are never recycled and never invalidated (use-after-free is then not detectable; stated where used) */
    if (ptr) { vt_del(ptr); }
#else
    if (ptr) {
        vt_del(ptr);
#    ifdef VERIF_TYPED_RELEASE
        if (verif_typed_release(ptr)) return;
#    endif
        free(ptr);
    }
#endif
}
int aws_mem_realloc(struct aws_allocator *allocator, void **ptr, size_t oldsize, size_t newsize) {
    ASSERT(allocator != NULL, "aws_mem_realloc: NULL allocator (library aborts)");
    if (newsize == 0) { aws_mem_release(allocator, *ptr); *ptr = NULL; return 0; }
    /* always moves: a fresh block, old contents copied, old block freed */
    void *np = NULL;
#ifdef VERIF_TYPED_ACQUIRE
    np = verif_typed_acquire(newsize);
#endif
    if (!np) np = verif_malloc(newsize);
    if (*ptr) {
        memcpy(np, *ptr, oldsize < newsize ? oldsize : newsize);
        vt_del(*ptr);
#ifdef VERIF_TYPED_RELEASE
        if (!verif_typed_release(*ptr))
#endif
            free(*ptr);
    }
    vt_add(np, newsize);
    *ptr = np;
    return 0;
}
#define VERIF_ALIGN_UP(v) (((v) + 7u) & ~(size_t)7u)
void *aws_mem_acquire_many(struct aws_allocator *allocator, size_t count, ...) {
    va_list a, b;
    va_start(a, count);
    va_copy(b, a);
    size_t total = 0;
    for (size_t i = 0; i < count; ++i) { (void)va_arg(a, void **); size_t s = va_arg(a, size_t); total += VERIF_ALIGN_UP(s); }
    va_end(a);
    void *blk = NULL;
#ifdef VERIF_TYPED_ACQUIRE_MANY
    /* every part gets its own statically typed object from the harness (release of the first part releases the group) */
    for (size_t i = 0; i < count; ++i) {
        void **o = va_arg(b, void **); size_t s = va_arg(b, size_t);
        *o = verif_typed_acquire(s);
        ASSERT(*o != NULL, "typed acquire_many: harness has a typed object for every part (bound of the harness)");
        if (i == 0) blk = *o;
    }
    va_end(b);
    return blk;
#endif
    if (total > 0) {
        blk = aws_mem_acquire(allocator, total);
        uint8_t *cur = blk;
        for (size_t i = 0; i < count; ++i) { void **o = va_arg(b, void **); size_t s = va_arg(b, size_t); *o = cur; cur += VERIF_ALIGN_UP(s); }
    }
    va_end(b);
    return blk;
}
