/* memset/memcpy/memmove exactly as in CBMC's own C library model, except that a
 * zero-length call is a no-op for ANY pointer (incl. NULL): it touches no memory,
 * which is what C01/C04 are about (ISO C2y N3322 also defines it).  CBMC's
 * bundled model flags memset(NULL, c, 0) as "region not writeable". */
#include "verif.h"
#include <string.h>
#ifndef VERIF_NATIVE
void *memset(void *s, int c, size_t n) {
__CPROVER_HIDE:;
    if (n == 0) return s;
    __CPROVER_precondition(__CPROVER_w_ok(s, n), "memset destination region writeable");
    char *sp = s;
    __CPROVER_size_t s_n = n;
    char arr[s_n];
    __CPROVER_array_set(arr, c);
    __CPROVER_array_replace(sp, arr);
    return s;
}
void *memcpy(void *dst, const void *src, size_t n) {
__CPROVER_HIDE:;
    if (n == 0) return dst;
    __CPROVER_precondition(__CPROVER_POINTER_OBJECT(dst) != __CPROVER_POINTER_OBJECT(src) ||
                               ((const char *)src >= (const char *)dst + n) || ((const char *)dst >= (const char *)src + n),
                           "memcpy src/dst overlap");
    __CPROVER_precondition(__CPROVER_r_ok(src, n), "memcpy source region readable");
    __CPROVER_precondition(__CPROVER_w_ok(dst, n), "memcpy destination region writeable");
    char src_n[n];
    __CPROVER_array_copy(src_n, (char *)src);
    __CPROVER_array_replace((char *)dst, src_n);
    return dst;
}
void *memmove(void *dest, const void *src, size_t n) {
__CPROVER_HIDE:;
    if (n == 0) return dest;
    __CPROVER_precondition(__CPROVER_r_ok(src, n), "memmove source region readable");
    __CPROVER_precondition(__CPROVER_w_ok(dest, n), "memmove destination region writeable");
    char src_n[n];
    __CPROVER_array_copy(src_n, (char *)src);
    __CPROVER_array_replace((char *)dest, src_n);
    return dest;
}
#endif
