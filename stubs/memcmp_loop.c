/* memcmp as a plain byte loop (libc contract: compares at most n bytes, stops at the
 * first difference; both regions must be readable for n bytes — checked by the
 * dereferences).  Used where CBMC's array-theory model does not terminate. */
#include "verif.h"
#include <string.h>
#ifndef VERIF_NATIVE
int memcmp(const void *a, const void *b, size_t n) {
    const uint8_t *x = a, *y = b;
    for (size_t i = 0; i < n; ++i)
        if (x[i] != y[i]) return x[i] < y[i] ? -1 : 1;
    return 0;
}
#endif
