/* base stubs, part of every claim that lists "base.c":
 *  - aws_fatal_assert(): the real one prints and abort()s; here reaching it is an
 *    assertion failure ("library aborts"), then the path ends.
 *  - aws_logger_get*(): no logger installed (NULL), which is the library's own
 *    documented no-logging state; logging is the subject only in C14.
 *  - aws_backtrace_print / aws_debug_break: no-ops.
 */
#include "verif.h"
#include <aws/common/common.h>
#include <aws/common/logging.h>
#include <stdlib.h>

#ifndef VERIF_KEEP_FATAL_ASSERT
void aws_fatal_assert(const char *cond_str, const char *file, int line) {
    (void)cond_str; (void)file; (void)line;
    ASSERT(0, "aws_fatal_assert reached: the library would abort()");
#ifdef VERIF_NATIVE
    abort();
#else
    __CPROVER_assume(0);
#endif
}
#endif

#ifndef VERIF_REAL_LOGGING
struct aws_logger *aws_logger_get(void) { return NULL; }
struct aws_logger *aws_logger_get_conditional(aws_log_subject_t subject, enum aws_log_level level) {
    (void)subject; (void)level;
    return NULL;
}
#endif

void aws_backtrace_print(FILE *fp, void *call_site_data) { (void)fp; (void)call_site_data; }
void aws_debug_break(void) {}

void *verif_malloc(size_t n) {
    void *p = malloc(n ? n : 1);
#ifdef VERIF_NATIVE
    if (!p) abort();
#else
    __CPROVER_assume(p != NULL);
#endif
    return p;
}
void verif_free(void *p) { free(p); }
