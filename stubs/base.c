/* base stubs, part of every claim that lists "base.c":
 *  - aws_fatal_assert(): the real one prints and abort()s; here reaching it is an
 *    assertion failure ("library aborts"), then the path ends.
 *  - aws_logger_get*(): no logger installed (NULL), which is the library's own
 *    documented no-logging state; logging is the subject only in C14.
 *  - aws_backtrace_print / aws_debug_break: no-ops.
 */
#include "verif.h"
#include <aws/common/common.h>
#include <aws/common/logging.h>
#include <stdlib.h>

#ifndef VERIF_KEEP_FATAL_ASSERT
void aws_fatal_assert(const char *cond_str, const char *file, int line) {
    (void)cond_str; (void)file; (void)line;
    ASSERT(0, "aws_fatal_assert reached: the library would abort()");
#ifdef VERIF_NATIVE
    abort();
#else
    __CPROVER_assume(0);
#endif
}
#endif

#ifndef VERIF_REAL_LOGGING
struct aws_logger *aws_logger_get(void) { return NULL; }
struct aws_logger *aws_logger_get_conditional(aws_log_subject_t subject, enum aws_log_level level) {
    (void)subject; (void)level;
    return NULL;
}
#endif

void aws_backtrace_print(FILE *fp, void *call_site_data) { (void)fp; (void)call_site_data; }
void aws_debug_break(void) {}

void *verif_malloc(size_t n) {
    void *p = malloc(n ? n : 1);
#ifdef VERIF_NATIVE
    if (!p) abort();
#else
    __CPROVER_assume(p != NULL);
#endif
    return p;
}
void verif_free(void *p) { free(p); }

/* allocation of a SMALL symbolic size as a case split over constant sizes: every branch
 * allocates an object of constant size, which CBMC bit-blasts directly; an object whose
 * size is a solver variable goes through the array theory instead (measured: 114 M clauses
 * for a 9-byte array list).  Exactly n bytes are allocated, so out-of-bounds accesses are
 * still caught.  n > 40 falls back to the symbolic-size allocation. */
#define VM_CASE(k) case k: return verif_malloc(k);
void *verif_malloc_sw(size_t n) {
    switch (n) {
        case 0: return verif_malloc(0);
        VM_CASE(1) VM_CASE(2) VM_CASE(3) VM_CASE(4) VM_CASE(5) VM_CASE(6) VM_CASE(7) VM_CASE(8) VM_CASE(9) VM_CASE(10)
        VM_CASE(11) VM_CASE(12) VM_CASE(13) VM_CASE(14) VM_CASE(15) VM_CASE(16) VM_CASE(17) VM_CASE(18) VM_CASE(19) VM_CASE(20)
        VM_CASE(21) VM_CASE(22) VM_CASE(23) VM_CASE(24) VM_CASE(25) VM_CASE(26) VM_CASE(27) VM_CASE(28) VM_CASE(29) VM_CASE(30)
        VM_CASE(31) VM_CASE(32) VM_CASE(33) VM_CASE(34) VM_CASE(35) VM_CASE(36) VM_CASE(37) VM_CASE(38) VM_CASE(39) VM_CASE(40)
        default: return verif_malloc(n);
    }
}
