#include "immintrin.h"
