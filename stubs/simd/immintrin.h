/* E3 — lane-wise C models of the 20 AVX2/SSE2 intrinsics used by
 * source/arch/intel/encoding_avx2.c, transcribed from the Intel Intrinsics Guide pseudo-code.
 * This header shadows <immintrin.h>/<emmintrin.h> in the goto-cc build of that file only.
 * With -DSIMD_MODEL_PREFIX the functions are emitted as model_* so that tools/simd_validate.c can
 * compare every model against the hardware intrinsic (run as a precheck on every check run). */
#ifndef VERIF_SIMD_MODEL_H
#define VERIF_SIMD_MODEL_H
#include <stdint.h>
#include <string.h>
#ifdef SIMD_MODEL_PREFIX
#    define M(n) model##n
typedef struct { uint8_t b[32]; } model_m256i;
typedef struct { uint8_t b[16]; } model_m128i;
#    define V256 model_m256i
#    define V128 model_m128i
#else
#    define M(n) n
typedef struct { uint8_t b[32]; } __attribute__((aligned(32))) __m256i;
typedef struct { uint8_t b[16]; } __attribute__((aligned(16))) __m128i;
#    define V256 __m256i
#    define V128 __m128i
#endif
static inline uint32_t simd_ld32(const V256 *v, int i) { return (uint32_t)v->b[4 * i] | (uint32_t)v->b[4 * i + 1] << 8 | (uint32_t)v->b[4 * i + 2] << 16 | (uint32_t)v->b[4 * i + 3] << 24; }
static inline void simd_st32(V256 *v, int i, uint32_t x) { v->b[4 * i] = (uint8_t)x; v->b[4 * i + 1] = (uint8_t)(x >> 8); v->b[4 * i + 2] = (uint8_t)(x >> 16); v->b[4 * i + 3] = (uint8_t)(x >> 24); }

static inline V256 M(_mm256_set1_epi8)(char a) { V256 r; for (int i = 0; i < 32; ++i) r.b[i] = (uint8_t)a; return r; }
static inline V256 M(_mm256_set1_epi32)(int a) { V256 r; for (int i = 0; i < 8; ++i) simd_st32(&r, i, (uint32_t)a); return r; }
/* set_epi32(e7,...,e0): e0 is the lowest dword */
static inline V256 M(_mm256_set_epi32)(int e7, int e6, int e5, int e4, int e3, int e2, int e1, int e0) {
    V256 r; simd_st32(&r, 0, (uint32_t)e0); simd_st32(&r, 1, (uint32_t)e1); simd_st32(&r, 2, (uint32_t)e2); simd_st32(&r, 3, (uint32_t)e3);
    simd_st32(&r, 4, (uint32_t)e4); simd_st32(&r, 5, (uint32_t)e5); simd_st32(&r, 6, (uint32_t)e6); simd_st32(&r, 7, (uint32_t)e7); return r; }
static inline V256 M(_mm256_sub_epi8)(V256 a, V256 b) { V256 r; for (int i = 0; i < 32; ++i) r.b[i] = (uint8_t)(a.b[i] - b.b[i]); return r; }
static inline V256 M(_mm256_add_epi8)(V256 a, V256 b) { V256 r; for (int i = 0; i < 32; ++i) r.b[i] = (uint8_t)(a.b[i] + b.b[i]); return r; }
static inline V256 M(_mm256_min_epu8)(V256 a, V256 b) { V256 r; for (int i = 0; i < 32; ++i) r.b[i] = a.b[i] < b.b[i] ? a.b[i] : b.b[i]; return r; }
static inline V256 M(_mm256_cmpeq_epi8)(V256 a, V256 b) { V256 r; for (int i = 0; i < 32; ++i) r.b[i] = a.b[i] == b.b[i] ? 0xFF : 0; return r; }
static inline V256 M(_mm256_and_si256)(V256 a, V256 b) { V256 r; for (int i = 0; i < 32; ++i) r.b[i] = a.b[i] & b.b[i]; return r; }
static inline V256 M(_mm256_or_si256)(V256 a, V256 b) { V256 r; for (int i = 0; i < 32; ++i) r.b[i] = a.b[i] | b.b[i]; return r; }
/* ZF = ((a AND b) == 0) */
static inline int M(_mm256_testz_si256)(V256 a, V256 b) { int z = 1; for (int i = 0; i < 32; ++i) if (a.b[i] & b.b[i]) z = 0; return z; }
static inline V256 M(_mm256_slli_epi32)(V256 a, int imm) { V256 r; for (int i = 0; i < 8; ++i) simd_st32(&r, i, (unsigned)imm > 31 ? 0 : simd_ld32(&a, i) << imm); return r; }
static inline V256 M(_mm256_srli_epi32)(V256 a, int imm) { V256 r; for (int i = 0; i < 8; ++i) simd_st32(&r, i, (unsigned)imm > 31 ? 0 : simd_ld32(&a, i) >> imm); return r; }
static inline V256 M(_mm256_load_si256)(const V256 *p) { V256 r; memcpy(&r, p, 32); return r; }
static inline V256 M(_mm256_loadu_si256)(const V256 *p) { V256 r; memcpy(&r, p, 32); return r; }
static inline void M(_mm256_storeu_si256)(V256 *p, V256 a) { memcpy(p, &a, 32); }
static inline void M(_mm_storeu_si128)(V128 *p, V128 a) { memcpy(p, &a, 16); }
/* per 128-bit lane: if b[7] set -> 0 else a[lane*16 + (b & 0x0F)] */
static inline V256 M(_mm256_shuffle_epi8)(V256 a, V256 b) {
    V256 r;
    for (int i = 0; i < 32; ++i) { int lane = i & 16; r.b[i] = (b.b[i] & 0x80) ? 0 : a.b[lane + (b.b[i] & 0x0F)]; }
    return r; }
/* dst.dword[i] = a.dword[idx.dword[i] & 7] */
static inline V256 M(_mm256_permutevar8x32_epi32)(V256 a, V256 idx) { V256 r; for (int i = 0; i < 8; ++i) simd_st32(&r, i, simd_ld32(&a, (int)(simd_ld32(&idx, i) & 7))); return r; }
static inline V128 M(_mm256_extracti128_si256)(V256 a, int imm) { V128 r; memcpy(&r, a.b + ((imm & 1) ? 16 : 0), 16); return r; }
static inline long long M(_mm256_extract_epi64)(V256 a, int idx) { uint64_t x = 0; for (int i = 7; i >= 0; --i) x = (x << 8) | a.b[8 * (idx & 3) + i]; return (long long)x; }
#endif
