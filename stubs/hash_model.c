/* Contract model of aws_hash_table for properties whose subject is code BUILT ON the table (C18: linked hash table, caches).
 * source/hash_table.c itself is decided in C02 (find / create / remove / clear / iterate against a reference map, one step from
 * arbitrary valid states); here the seven entry points used by source/linked_hash_table.c are replaced by the map those contracts
 * describe, so that programs of several operations fit the solver.  What the model keeps from the real table:
 *   - an entry matches a key iff the stored hash code equals hash_fn(key) and (pointer-equal or equals_fn) — s_safe_eq_check;
 *   - create() returns the existing element (was_created = 0) or a new one with value NULL (was_created = 1);
 *   - remove() without out-parameters calls destroy_key_fn(key) then destroy_value_fn(value), then drops the entry;
 *   - clear() / clean_up() call both destructors once per entry.
 * What it does not keep: slot layout, growth, allocation failure, and element-pointer invalidation on mutation (model elements have
 * stable addresses, so a stale element pointer used after a later mutation would not be noticed).  All stated in the evidence. */
#include "verif.h"
#include <aws/common/hash_table.h>
#include <aws/common/error.h>
#ifndef HM_CAP
#    define HM_CAP 6
#endif
#ifndef HM_TABLES
#    define HM_TABLES 1
#endif
#if HM_TABLES > 3
#    error "hash model: at most 3 tables"
#endif
#if HM_CAP > 8
#    error "hash model: at most 8 elements"
#endif
struct hash_table_state {
    aws_hash_fn *hash_fn;
    aws_hash_callback_eq_fn *equals_fn;
    aws_hash_callback_destroy_fn *destroy_key_fn, *destroy_value_fn;
    size_t n;
    size_t t; /* table number: selects the row of element objects */
    bool used[HM_CAP];
    uint64_t code[HM_CAP];
};
/* Every element is its OWN top-level object (up to 3 tables of up to 8 elements per harness).  A pointer into an array of structs has a symbolic offset
 * for CBMC, and a read through it is field-INsensitive: the value set of element->value then contains every key as well, and the
 * library's list code is executed for nodes "at" key objects, vtables, the allocator ... (measured: 37 M clauses for three puts,
 * 80 % of them in aws_linked_list_remove).  Distinct objects keep the offset constant and the reads field-sensitive. */
static struct hash_table_state hm_pool[HM_TABLES];
#define HM_ROW(t) static struct aws_hash_element hm_e##t##_0, hm_e##t##_1, hm_e##t##_2, hm_e##t##_3, hm_e##t##_4, hm_e##t##_5, hm_e##t##_6, hm_e##t##_7;
HM_ROW(0) HM_ROW(1) HM_ROW(2)
#define HM_PTRS(t) {&hm_e##t##_0, &hm_e##t##_1, &hm_e##t##_2, &hm_e##t##_3, &hm_e##t##_4, &hm_e##t##_5, &hm_e##t##_6, &hm_e##t##_7}
static struct aws_hash_element *const hm_ep[3][8] = {HM_PTRS(0), HM_PTRS(1), HM_PTRS(2)};
#define EL(s, i) (*hm_ep[(s)->t][i])
static size_t hm_next;
static uint64_t hm_hash(struct hash_table_state *s, const void *k) { return s->hash_fn(k); }
static bool hm_eq(struct hash_table_state *s, const void *a, const void *b) {
    if (a == b) return true;
    if (a == NULL || b == NULL) return false;
    return s->equals_fn(a, b);
}
static void hm_dk(struct hash_table_state *s, void *k) { if (s->destroy_key_fn) s->destroy_key_fn(k); }
static void hm_dv(struct hash_table_state *s, void *v) { if (s->destroy_value_fn) s->destroy_value_fn(v); }
/* returns the slot INDEX; callers form &EL(s, i) from it.  (Returning a pointer chosen inside the loop makes the result an
 * if-then-else over addresses and every later call through it is executed once per alternative: 78k instead of 23k symex steps.) */
static long hm_lookup(struct hash_table_state *s, const void *key) {
    uint64_t h = hm_hash(s, key);
    for (size_t i = 0; i < HM_CAP; ++i)
        if (s->used[i] && s->code[i] == h && hm_eq(s, key, EL(s, i).key)) return (long)i;
    return -1;
}
int aws_hash_table_init(struct aws_hash_table *map, struct aws_allocator *alloc, size_t size, aws_hash_fn *hash_fn, aws_hash_callback_eq_fn *equals_fn,
                        aws_hash_callback_destroy_fn *destroy_key_fn, aws_hash_callback_destroy_fn *destroy_value_fn) {
    (void)alloc; (void)size;
    ASSERT(map != NULL && hash_fn != NULL && equals_fn != NULL, "aws_hash_table_init: preconditions");
    ASSERT(hm_next < HM_TABLES, "hash model: more tables than HM_TABLES (bound of the model, not the property)");
    struct hash_table_state *s = &hm_pool[hm_next];
    s->t = hm_next;
    hm_next++;
    s->hash_fn = hash_fn; s->equals_fn = equals_fn; s->destroy_key_fn = destroy_key_fn; s->destroy_value_fn = destroy_value_fn;
    s->n = 0;
    for (size_t i = 0; i < HM_CAP; ++i) s->used[i] = false;
    map->p_impl = s;
    return AWS_OP_SUCCESS;
}
bool aws_hash_table_is_valid(const struct aws_hash_table *map) { return map && map->p_impl; }
size_t aws_hash_table_get_entry_count(const struct aws_hash_table *map) { return map->p_impl->n; }
int aws_hash_table_find(const struct aws_hash_table *map, const void *key, struct aws_hash_element **p_elem) {
    struct hash_table_state *s = map->p_impl;
    long i = hm_lookup(s, key);
    *p_elem = i >= 0 ? &EL(s, i) : NULL;
    return AWS_OP_SUCCESS;
}
int aws_hash_table_create(struct aws_hash_table *map, const void *key, struct aws_hash_element **p_elem, int *was_created) {
    struct hash_table_state *s = map->p_impl;
    long i = hm_lookup(s, key);
    if (i >= 0) { if (p_elem) *p_elem = &EL(s, i); if (was_created) *was_created = 0; return AWS_OP_SUCCESS; }
    long f = -1;
    for (size_t j = 0; j < HM_CAP; ++j) if (!s->used[j] && f < 0) f = (long)j;
    ASSERT(f >= 0, "hash model: more live entries than HM_CAP (bound of the model, not the property)");
    ASSUME(f >= 0);
    s->used[f] = true; s->code[f] = hm_hash(s, key); EL(s, f).key = key; EL(s, f).value = NULL; s->n++;
    if (p_elem) *p_elem = &EL(s, f);
    if (was_created) *was_created = 1;
    return AWS_OP_SUCCESS;
}
int aws_hash_table_remove(struct aws_hash_table *map, const void *key, struct aws_hash_element *p_value, int *was_present) {
    struct hash_table_state *s = map->p_impl;
    long i = hm_lookup(s, key);
    if (was_present) *was_present = i >= 0;
    if (i < 0) return AWS_OP_SUCCESS;
    if (p_value) *p_value = EL(s, i);
    else { hm_dk(s, (void *)EL(s, i).key); hm_dv(s, EL(s, i).value); } /* real table: destructors first, then the entry is dropped */
    s->used[i] = false; s->n--;
    return AWS_OP_SUCCESS;
}
void aws_hash_table_clear(struct aws_hash_table *map) {
    struct hash_table_state *s = map->p_impl;
    for (size_t i = 0; i < HM_CAP; ++i)
        if (s->used[i]) { hm_dk(s, (void *)EL(s, i).key); hm_dv(s, EL(s, i).value); s->used[i] = false; }
    s->n = 0;
}
void aws_hash_table_clean_up(struct aws_hash_table *map) {
    if (!map->p_impl) return;
    aws_hash_table_clear(map);
    map->p_impl = NULL;
}
int aws_hash_table_put(struct aws_hash_table *map, const void *key, void *value, int *was_created) {
    struct aws_hash_element *e;
    int created;
    if (aws_hash_table_create(map, key, &e, &created)) return AWS_OP_ERR;
    if (was_created) *was_created = created;
    struct hash_table_state *s = map->p_impl;
    if (!created) { /* real table: the old key is destroyed only if it is a different pointer; the old value always */
        if (e->key != key) hm_dk(s, (void *)e->key);
        hm_dv(s, e->value);
    }
    e->key = key;
    e->value = value;
    return AWS_OP_SUCCESS;
}
int aws_hash_table_remove_element(struct aws_hash_table *map, struct aws_hash_element *p_value) { /* no destructors (real table: s_remove_entry only) */
    struct hash_table_state *s = map->p_impl;
    bool found = false;
    for (size_t i = 0; i < HM_CAP; ++i)
        if (s->used[i] && p_value == &EL(s, i)) { s->used[i] = false; found = true; }
    ASSERT(found, "aws_hash_table_remove_element: the element belongs to this table and is live (precondition of the real table)");
    s->n--;
    return AWS_OP_SUCCESS;
}
static int hm_cb(int (*callback)(void *context, struct aws_hash_element *pElement), void *context, struct aws_hash_element *e) { return callback(context, e); }
int aws_hash_table_foreach(struct aws_hash_table *map, int (*callback)(void *context, struct aws_hash_element *pElement), void *context) {
    struct hash_table_state *s = map->p_impl;
    for (size_t i = 0; i < HM_CAP; ++i) /* slot order: the real table's order is unspecified as well */
        if (s->used[i]) {
            int rv = hm_cb(callback, context, &EL(s, i));
            if (rv & AWS_COMMON_HASH_TABLE_ITER_ERROR) { if (aws_last_error() == AWS_ERROR_SUCCESS) aws_raise_error(AWS_ERROR_UNKNOWN); return AWS_OP_ERR; }
            if (rv & AWS_COMMON_HASH_TABLE_ITER_DELETE) { s->used[i] = false; s->n--; }
            if (!(rv & AWS_COMMON_HASH_TABLE_ITER_CONTINUE)) break;
        }
    return AWS_OP_SUCCESS;
}
/* pointer keys: any hash function consistent with pointer equality is a valid aws_hash_ptr; the constant one makes every pair of keys
 * collide, so equality alone decides (the real function is lookup3 over the pointer's bytes) */
uint64_t aws_hash_ptr(const void *item) { (void)item; return 0; }
bool aws_ptr_eq(const void *a, const void *b) { return a == b; }
