#!/bin/bash
# Re-runs every claimed check (quick tier) on the CURRENT /repo tree and reports exit codes; refuses to run while /repo has local changes
# (committed evidence must describe the unchanged tree).
cd /verif
if [ -n "$(git -C /repo status --short)" ]; then echo "/repo has local changes: refusing"; exit 2; fi
ids=$(python3 -c "import json; print(' '.join(c['property_id'] for c in json.load(open('MANIFEST.json'))['checks']))")
rc_all=0
for p in $ids; do
  /usr/bin/time -f "$p quick %es" ./check $p --tier quick > /var/tmp/quick_$p.log 2>&1; rc=$?
  tail -n 2 /var/tmp/quick_$p.log | head -1
  echo "$p rc=$rc"; [ $rc -ne 0 ] && rc_all=1
done
python3-vt - <<'PY'
import json, glob, jsonschema
sch = json.load(open('/root/.vp/EVIDENCE.schema.json'))
for f in sorted(glob.glob('/verif/evidence/*.json')):
    try: jsonschema.validate(json.load(open(f)), sch)
    except Exception as e: print('EVIDENCE INVALID', f, str(e)[:200])
print('evidence files validated')
PY
exit $rc_all
