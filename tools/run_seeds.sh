#!/bin/bash
# Applies every seeded change in /verif/seeded/<id>-<L>/ to /repo, runs that property's quick check, records the outcome in
# meta.json ("detected": true/false/"n/a", first violated assertion) and reverts. Never commits anything in /repo.
cd /verif
for d in seeded/*/; do
  id=$(basename $d); prop=${id%%-*}
  if ! grep -q "\"property_id\": \"$prop\"" MANIFEST.json || ! python3 -c "import json,sys; m=json.load(open('MANIFEST.json')); sys.exit(0 if any(c['property_id']=='$prop' for c in m['checks']) else 1)"; then
    res="not-claimed"; first=""
  elif ! git -C /repo apply --check /verif/$d/patch.diff 2>/dev/null; then res="patch-does-not-apply"; first=""
  else
    cp evidence/$prop.json /var/tmp/evidence_$prop.bak 2>/dev/null   # evidence committed under /verif must come from the unchanged tree
    git -C /repo apply /verif/$d/patch.diff
    out=$(./check $prop --tier quick 2>&1); rc=$?
    git -C /repo checkout -- .
    cp /var/tmp/evidence_$prop.bak evidence/$prop.json 2>/dev/null
    first=$(echo "$out" | grep -m1 "counterexample" | sed "s/.*assertion='//; s/' at.*//")
    nat=$(echo "$out" | grep -m1 "counterexample" | sed 's/.*native-replay=//')
    if [ $rc -eq 1 ]; then res="detected"; else res="missed(rc=$rc)"; fi
  fi
  python3 - "$d/meta.json" "$res" "$first" "$nat" <<'PY'
import json,sys
p,res,first,nat=sys.argv[1:5]
m=json.load(open(p)); m['check_result']=res; m['first_violated_assertion']=first; m['native_replay']=nat
m['how_checked']="tools/run_seeds.sh: git -C /repo apply patch.diff; ./check <property> --tier quick; git -C /repo checkout -- ."
json.dump(m,open(p,'w'),indent=1)
PY
  echo "$id: $res ${first:+[$first]} ${nat:+native=$nat}"
done
git -C /repo status --short | head -3
