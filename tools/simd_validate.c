/* validates every lane-wise model in stubs/simd/immintrin.h against the hardware intrinsic
 * (gcc -mavx2): 20000 random vectors + edge lanes per intrinsic. exit 0 iff all agree. */
#include <immintrin.h>
#include <stdio.h>
#include <stdlib.h>
#define SIMD_MODEL_PREFIX
#undef VERIF_SIMD_MODEL_H
#include "../stubs/simd/immintrin.h"
static uint64_t s = 88172645463325252ULL;
static uint8_t rnd(void) { s ^= s << 13; s ^= s >> 7; s ^= s << 17; return (uint8_t)(s >> 24); }
static int bad;
static void fill(uint8_t *p, int n, int mode) { for (int i = 0; i < n; ++i) p[i] = mode == 0 ? rnd() : mode == 1 ? (rnd() & 1 ? 0xFF : 0) : mode == 2 ? (uint8_t)(rnd() % 3 ? 0x80 | (rnd() & 0x8F) : rnd() & 0x1F) : (uint8_t)("AZaz09+/=@[`{:. \0\x7f\x80\xff"[rnd() % 22]); }
#define CMP256(name, hw, md) do { __m256i h_ = (hw); model_m256i m_ = (md); if (memcmp(&h_, &m_, 32)) { bad++; printf("MISMATCH %s\n", name); } } while (0)
int main(void) {
    for (int it = 0; it < 20000; ++it) {
        int mode = it % 4;
        uint8_t A[32], B[32];
        fill(A, 32, mode); fill(B, 32, it % 5 == 0 ? 2 : mode);
        __m256i a, b; model_m256i ma, mb;
        memcpy(&a, A, 32); memcpy(&b, B, 32); memcpy(&ma, A, 32); memcpy(&mb, B, 32);
        CMP256("sub_epi8", _mm256_sub_epi8(a, b), model_mm256_sub_epi8(ma, mb));
        CMP256("add_epi8", _mm256_add_epi8(a, b), model_mm256_add_epi8(ma, mb));
        CMP256("min_epu8", _mm256_min_epu8(a, b), model_mm256_min_epu8(ma, mb));
        CMP256("cmpeq_epi8", _mm256_cmpeq_epi8(a, b), model_mm256_cmpeq_epi8(ma, mb));
        CMP256("cmpeq_epi8 self", _mm256_cmpeq_epi8(a, a), model_mm256_cmpeq_epi8(ma, ma));
        CMP256("and", _mm256_and_si256(a, b), model_mm256_and_si256(ma, mb));
        CMP256("or", _mm256_or_si256(a, b), model_mm256_or_si256(ma, mb));
        CMP256("shuffle_epi8", _mm256_shuffle_epi8(a, b), model_mm256_shuffle_epi8(ma, mb));
        CMP256("permutevar8x32", _mm256_permutevar8x32_epi32(a, b), model_mm256_permutevar8x32_epi32(ma, mb));
        CMP256("set1_epi8", _mm256_set1_epi8((char)A[0]), model_mm256_set1_epi8((char)A[0]));
        int x = (int)(A[0] | A[1] << 8 | A[2] << 16 | (unsigned)A[3] << 24);
        CMP256("set1_epi32", _mm256_set1_epi32(x), model_mm256_set1_epi32(x));
        CMP256("set_epi32", _mm256_set_epi32(x, 1, 2, 3, A[4], 5, -6, 7), model_mm256_set_epi32(x, 1, 2, 3, A[4], 5, -6, 7));
        CMP256("slli 18", _mm256_slli_epi32(a, 18), model_mm256_slli_epi32(ma, 18));
        CMP256("slli 4", _mm256_slli_epi32(a, 4), model_mm256_slli_epi32(ma, 4));
        CMP256("slli 24", _mm256_slli_epi32(a, 24), model_mm256_slli_epi32(ma, 24));
        CMP256("slli 10", _mm256_slli_epi32(a, 10), model_mm256_slli_epi32(ma, 10));
        CMP256("srli 10", _mm256_srli_epi32(a, 10), model_mm256_srli_epi32(ma, 10));
        CMP256("srli 24", _mm256_srli_epi32(a, 24), model_mm256_srli_epi32(ma, 24));
        CMP256("srli 4", _mm256_srli_epi32(a, 4), model_mm256_srli_epi32(ma, 4));
        CMP256("srli 18", _mm256_srli_epi32(a, 18), model_mm256_srli_epi32(ma, 18));
        CMP256("loadu", _mm256_loadu_si256((const __m256i *)A), model_mm256_loadu_si256((const model_m256i *)A));
        if (_mm256_testz_si256(a, b) != model_mm256_testz_si256(ma, mb)) { bad++; printf("MISMATCH testz\n"); }
        if (_mm256_testz_si256(a, a) != model_mm256_testz_si256(ma, ma)) { bad++; printf("MISMATCH testz self\n"); }
        { __m256i z = _mm256_setzero_si256(); model_m256i mz; memset(&mz, 0, 32); if (_mm256_testz_si256(z, z) != model_mm256_testz_si256(mz, mz)) { bad++; printf("MISMATCH testz zero\n"); } }
        for (int k = 0; k < 2; ++k) {
            __m128i h = k ? _mm256_extracti128_si256(a, 1) : _mm256_extracti128_si256(a, 0);
            model_m128i m = model_mm256_extracti128_si256(ma, k);
            if (memcmp(&h, &m, 16)) { bad++; printf("MISMATCH extracti128\n"); }
            uint8_t o1[16], o2[16];
            _mm_storeu_si128((__m128i *)o1, h); model_mm_storeu_si128((model_m128i *)o2, m);
            if (memcmp(o1, o2, 16)) { bad++; printf("MISMATCH storeu128\n"); }
        }
        if (_mm256_extract_epi64(a, 2) != model_mm256_extract_epi64(ma, 2)) { bad++; printf("MISMATCH extract_epi64\n"); }
        uint8_t o1[32], o2[32];
        _mm256_storeu_si256((__m256i *)o1, a); model_mm256_storeu_si256((model_m256i *)o2, ma);
        if (memcmp(o1, o2, 32)) { bad++; printf("MISMATCH storeu256\n"); }
        if (bad > 10) break;
    }
    printf("simd_validate: %s (%d mismatches)\n", bad ? "FAILED" : "all 20 intrinsic models agree with the CPU on 20000 vectors each", bad);
    return bad ? 1 : 0;
}
