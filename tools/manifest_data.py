HOOK_COMMITS = []
NOTES = ("Every check is `./check <id>`: it recompiles the named /repo sources with goto-cc on every run, runs CBMC per "
         "harness entry with unwinding assertions, requires every vacuity witness to be reachable, replays any "
         "counterexample natively (ASan/UBSan) and writes evidence/<id>.json. Exit 0 held within bounds, 1 violation, "
         "2 inconclusive. See DESIGN.md.")
PENDING = "check not built yet in this round (planned: see DESIGN.md §3); not claimed until it runs green on the unchanged tree"
CLAIMED = {
 "C01": dict(
    text="For every byte_buf.c API function: from an arbitrary valid buffer/cursor (capacity/len 0..8 quick, 0..12 thorough, all bytes "
         "symbolic, scalar size arguments unconstrained 64-bit) one call is symbolically executed and the solver shows memory safety "
         "(every dereference/memcpy region in bounds), validity afterwards, old bytes preserved, unchanged-on-failure, the functional "
         "post-condition and zero-before-release for secure variants. One inductive step from an arbitrary valid state covers call "
         "sequences of any length at these sizes.",
    note="Assumes cbmc 6.11 sound; allocator never fails (library aborts on OOM); memcpy modelled as byte loop in the aliasing "
         "harnesses; bswap inline asm lifted to __builtin_bswap64 by exact template match; pointer-formation UB in next_split is advisory.",
    technique="CBMC bounded symbolic execution of source/byte_buf.c, one-step induction over arbitrary valid states, SAT (minisat/kissat)"),
 "C09": dict(
    text="Array list: for each operation (push/pop at both ends, pop_front_n, erase, set_at with gap growth and index*size overflow, "
         "get/front/back, copy, shrink_to_fit, ensure_capacity, clear, swap_contents, clean_up) one call from an arbitrary valid "
         "list (static caller storage allocated with exactly its size, or dynamic; storage size fixed per job, length and all bytes "
         "symbolic, indices unconstrained 64-bit) is compared byte-wise against a reference sequence; swap for element sizes "
         "1/127/128/129/256/300. Linked list: one operation on arbitrary lists over a node pool, forward walk == expected, backward "
         "walk == mirror, removed nodes detached.",
    note="memcpy/memmove modelled as byte loops; qsort (libc) only has its arguments checked; storage <= 9 bytes quick / 16 thorough; "
         "node pool 5 / 7.",
    technique="CBMC bounded symbolic execution of array_list.inl/.c and linked_list.inl, one-step induction from arbitrary valid states"),
 "C06": dict(
    text="Priority queue: one operation (push, push with handle incl. the first handle arriving on a non-empty queue, pop, top, "
         "remove by live handle, remove by stale/unrelated handle, clear, capacity refusal) from an arbitrary heap-ordered queue of "
         "0..5 (quick) / 0..7 (thorough) elements with symbolic 32-bit priorities and handles attached to an arbitrary subset; after "
         "the call the solver shows heap order, contents equal to the reference multiset (every element intact), popped element is a "
         "minimum, and the handle bijection (slot's handle is its element's handle, handle index == slot, departed elements marked "
         "not-in-queue). Dynamic / static / no-handle-array configurations enumerated per job; 140-byte elements exercise the sliced swap.",
    note="Comparator is a total pre-order on a 32-bit key; element in slot i labelled i WLOG; allocator never fails; sizes beyond the bound not claimed.",
    technique="CBMC bounded symbolic execution of source/priority_queue.c, one-step induction over the heap + handle-bijection invariant"),
 "C16": dict(
    text="Checked/saturating add, sub, mul for u32/u64/size_t, power-of-two test and rounding, clz/ctz (5 widths), min/max (all types incl. "
         "float/double): the production variant (gcc overflow + bit builtins) is compared by the solver with a wider-integer reference for "
         "ALL operand values; the portable fallback variant is compiled side by side (renamed) and shown equal (add/clz/ctz for all operands; "
         "the division-based mul guard with one operand < 2^8 (u64) / 2^4 (u32)); the x86-64 inline-asm variant is parsed from the header on "
         "every run, executed symbolically over bit-vectors with CF/OF and proved equal to the spec for all operands with z3, the encoder "
         "being validated against the CPU on 43k native executions. Time conversion: all 16 unit pairs for all 64-bit tick values "
         "(floor or saturation, documented remainder), arbitrary frequencies 1..256.",
    note="cvc5 --solve-bv-as-int=sum decides the conversion proofs (guarded by a mutated-spec twin that must fail); portable mul and "
         "arbitrary-frequency conversion are bounded as stated because the 64x64 divider finished on no back end; msvc/arm64 variants not compiled here.",
    technique="CBMC bit-precise equivalence checking (SAT kissat/minisat, SMT cvc5 bv-as-int) + own x86 asm-to-SMT encoder decided by z3"),
 "C15": dict(
    text="Ring buffer: from every state of the invariant J (empty / linear / wrapped head-tail configurations, ring size 1..12 quick, "
         "1..40 thorough, request sizes unconstrained) one acquire or acquire_up_to is shown to return a buffer inside the storage, of "
         "exactly the requested size (or within [min, requested]), disjoint from the whole occupied region, and to re-establish J; release "
         "of the oldest of 1..3 outstanding buffers re-establishes J and after the last release acquire(size) succeeds. Interleavings: one "
         "acquire (either form) races 0..2 whole FIFO release() calls injected by the solver before/after each of its atomic loads and stores.",
    note="Sequential consistency assumed (no C11 memory model in CBMC): a weakened memory_order is not detectable. Single acquirer, FIFO releaser (documented usage).",
    technique="CBMC bounded symbolic execution; one-step induction over a head/tail state invariant; thread interleavings sequentialised at atomic accesses with solver-chosen schedule"),
 "C05": dict(
    text="Base64: for every input of n bytes (portable n<=7 quick / 26 thorough; AVX2 n up to 46 quick / 50 thorough, all bytes symbolic) the "
         "encoder output equals an independent RFC 4648 reference byte for byte, the predicted length is exact (length functions for ALL 64-bit n), "
         "capacity exact/one-short/pre-filled handled, decode(encode(x)) == x on both CPU paths; for ARBITRARY text (<= 36 chars quick) the "
         "portable and vectorised decoders give the same verdict and bytes as a strict canonical model and never report more bytes than written "
         "(symbolic canary). Hex: lowercase, exact length, odd-length decode, round trip. UTF-8: verdict and reported code points independent of "
         "two symbolic split points. The AVX2 file is executed through lane-wise C models of its 20 intrinsics, validated against the CPU on every run.",
    note="SIMD models trusted after differential validation (20000 vectors per intrinsic per run); has_avx2() stubbed to select the path; "
         "lengths beyond the bounds are not claimed. Two genuine defects found and repaired by fix: commits (known_findings.txt).",
    technique="CBMC bounded symbolic execution of encoding.c and encoding_avx2.c (SIMD intrinsics replaced by validated lane models), differential against a reference codec"),
 "C04": dict(
    text="On arbitrary bytes (every byte symbolic, object allocated with exactly the input length so any over-read is an error): aws_xml_parse "
         "(preamble loop, next-sibling, declaration split, traverse loop; documents of 3..5 bytes quick, callback scripts abort / descend-then-abort), "
         "base64 decode on both CPU paths (text up to 36), hex decode, UTF-8 validator with arbitrary chunking, unsigned-integer parsing (21 digits), "
         "percent-decoding, URI parsing (state functions in sequence), query-string iteration, IPv6 literal check: no out-of-bounds access, loops terminate within the bound (unwinding "
         "assertions are part of the property here), failure is reported through the documented channel with a registered error code, and every "
         "returned view lies inside the input.",
    note="NOT decided (stated in evidence.outside_claim): JSON/cJSON, the CBOR decoder beyond the first item of the input (the first item on 10/12 arbitrary bytes IS decided: h_cbor_decode_first), the URI table dispatcher, the XML body/skip path "
         "(s_advance_to_closing_tag), date-time, UUID and IPv4 (sscanf) -- their encodings exceed 12 GB / 240 s even at 2 input bytes or rest on libc. "
         "A genuine XML defect (searching '>' before '<') was found by these harnesses and repaired by a fix: commit.",
    technique="CBMC bounded symbolic execution of the real parsers over fully symbolic input buffers of fixed small length"),
 "C10": dict(
    text="CBOR integer-class items (unsigned, negative, tag, array and map heads) for ALL 64-bit values: encoder output read by an independent RFC 8949 "
         "head reader (same major type and value, nothing else written), shortest head used, decoder returns type and value and consumes exactly the "
         "encoded bytes. aws_cbor_encoder_write_float for EVERY double (bit pattern unconstrained, CBMC bit-precise IEEE-754): stored as integer iff "
         "integral in [-2^63, 2^63), else single iff exactly representable, else double; decoder returns the same numeric value (NaN to NaN).",
    note="NOT decided: string content round trip, multi-item sequences, skipping nested items, decoder on arbitrary bytes -- every harness with more "
         "than one cbor_stream_decode call (a 256-way switch) exhausted 12 GB or 240 s; kept in the harness source, not run. ldexp (libm) stubbed.",
    technique="CBMC bounded symbolic execution of cbor.c + libcbor encoder/decoder, differential against an independent head reader; floatbv for doubles"),
 "C13": dict(
    text="(a) parse(compose(components)) == components for 14 component-presence shapes (scheme, user[:password], host or bracketed IPv6 literal or "
         "empty host, port of 2 or 10 digits incl. values beyond 2^32-1 (rejected), path, query) with every character symbolic, and every component "
         "view inside the URI object's own copy; (b) the real builder assembles the text (query as string or key=value list, ports incl. the widest "
         "10-digit values) and the result parses back to the components; (c) percent-encoders: output alphabet, '%XX' upper-case, one unit per input "
         "byte, existing buffer content untouched, decode(encode(x)) == x for all byte strings up to 4/8 bytes; (d) query iteration == reference "
         "splitter == list form on arbitrary query strings up to 5/10 bytes; plus URI parse on arbitrary bytes up to 5/8.",
    note="The 12-line table dispatcher s_init_from_uri_str is replaced in the harness by explicit sequencing of the REAL static state functions "
         "(its function-pointer-table loop costs CBMC > 7 GB for a 2-byte URI, the sequence 1 s); the builder's final call to it is cut (nondet return) "
         "and the harness parses the assembled text. snprintf(\"%u\") has a decimal model. Scheme-less URIs with ':' in path/query are excluded "
         "(ambiguous grammar). A genuine defect (authority ran to a '/' inside the query) was found by (a) and fixed.",
    technique="CBMC bounded symbolic execution of uri.c (state functions, builder, encoders, query iteration) against generating components / reference models"),
 "C07": dict(
    text="Task scheduler: bounded programs over 2 tasks from a scheduler state identical to what aws_task_scheduler_init produces (checked by a "
         "separate obligation), operation kinds fixed per job from a script list (schedule_now, schedule_future, cancel, run_all, clean_up), all "
         "timestamps symbolic 64-bit, task functions that re-entrantly schedule or cancel the other task: every invocation happens only while the "
         "task is scheduled (exactly once), RUN only from run_all and never before its time, run-now tasks in FIFO order before timed ones, tasks "
         "scheduled from inside a running task wait for the next run_all, cancel invokes synchronously with CANCELED, clean_up cancels everything "
         "pending including tasks scheduled by cancelled callbacks, next-task-time equals the ghost minimum after every step.",
    note="NOT decided: programs in which run_all runs a task from the timed heap (F0R, F0F1R, F0RR, ...): symbolic execution did not finish in "
         "100 s, also with every task and both heap arrays as their own typed objects; the heap ordering itself is C06. Only the listed scripts are claimed.",
    technique="CBMC bounded symbolic execution of task_scheduler.c (+ priority_queue.c, linked_list.inl) on scripted programs with ghost bookkeeping"),
 "C14": dict(
    text="Level gate + foreground channel: a pipeline logger over the REAL foreground channel, K=2..3 AWS_LOGF calls with symbolic levels, symbolic "
         "initial level and one level change at a symbolic position: a call produces exactly one line iff its level is at or below the active "
         "level, lines reach the writer once each, in call order, each the line of its own call, with the channel mutex held during the write "
         "and released afterwards; the same gate for a logger that is NOT the process-wide root logger (AWS_LOGUF after a manual level check; root logger absent "
         "or another logger with a symbolic level): the logger's own level decides and nothing reaches the root logger. Truncation clause of the formatter: aws_format_standard_log_line into a fixed-size buffer of 2..16 (quick) / 2..40 bytes, with every "
         "snprintf/vsnprintf result length (0..size+3, or failure), every produced character and the timestamp length symbolic -- i.e. every "
         "possible truncation point of every piece: all stores stay inside the buffer, amount_written <= total_length, the line ends in a "
         "newline, contains no NUL and exactly one newline, also when it had to be cut.",
    note="libc formatting replaced by a C99-contract stub (part of the claim). NOT decided: the background channel (thread interleavings), line "
         "ownership/freeing (heap aws_string objects stall CBMC; the gate harness uses static lines), real writers. A genuine defect (cut lines ended in NULs, no newline) was found and fixed.",
    technique="CBMC bounded symbolic execution of log_formatter.c with contract stubs for libc formatting; all truncation points as solver variables"),
 "C02": dict(
    text="Hash table at 4 slots (max load 3): from an ARBITRARY state satisfying the representation invariant (stored hash == hash_fn(key) with "
         "0 mapped to 1, no duplicate keys, entry count, Robin-Hood probe order incl. wrap-around) and an ARBITRARY hash function (a table of "
         "solver-chosen 64-bit values: constant, clustered, slot-array-end and zero hashes are instances), keys that may be equal-but-distinct "
         "pointers, with and without destructors: find, create, remove (with/without out-parameter), remove_element, clear and a full iteration "
         "with keep/delete/delete+destroy chosen by the solver at every step each re-establish the invariant, agree with a reference map for every "
         "key, report the right count, visit every entry exactly once, and run destructors exactly once per displaced entry and never otherwise. "
         "put (overwrite semantics) is decided in the thorough tier only (815 s with cadical).",
    note="One inductive step from an arbitrary invariant state covers histories of any length at this table size. NOT decided: the growth step "
         "s_expand_table and aws_hash_table_init (harnesses exhaust 12 GB), tables larger than 4 slots, foreach/swap/move/eq wrappers, the "
         "library's own hash/eq pairs. s_expand_table is cut (assert-false) in the no-resize unit under an assumption that makes it unreachable.",
    technique="CBMC bounded symbolic execution of hash_table.c, one-step induction over a representation invariant with a symbolic hash function"),
 "C19": dict(
    text="Library-side date-time parsing: for 11 (quick) / 12 textual shapes (ISO 8601 extended/basic, with Z, numeric offsets +hh:mm / -hhmm, "
         "fractional seconds, date-only, lower-case designators; RFC 822 with/without weekday, GMT/UT/utc, numeric offset, two-digit year) with "
         "EVERY digit and the month name symbolic: the broken-down fields handed to the calendar are exactly the written ones, UTC is assumed for "
         "all designators and offsets (timegm, never mktime), instant = calendar(fields) - offset, explicit-format parsing == auto-detection; the "
         "epoch views (seconds / milliseconds / nanoseconds) are mutually consistent for every instant 1970..9999 (nanoseconds saturate after 2554).",
    note="PARTIAL by construction: the calendar (timegm/gmtime_r), strftime formatting and therefore the instant-level format->parse round trip and "
         "agreement with the proleptic Gregorian calendar are glibc code outside /repo and are NOT decided; aws_timegm/mktime/aws_gmtime/aws_localtime "
         "are stubs that record their argument and return a symbolic instant. A genuine defect (RFC 822 without weekday lost the first day digit) "
         "was found and fixed.",
    technique="CBMC bounded symbolic execution of date_time.c parsers over fixed textual shapes with symbolic digits (SAT kissat; cvc5 bv-as-int for epoch views)"),
 "C20": dict(
    text="Threads (programs J, JJ, M, MJ, Lm and, named and with pthread_create allowed to fail, JJ and M; in the thorough tier also MM, JJJ, MMM, LmJ, MLm ...): "
         "the real aws_thread_launch / thread_fn / aws_thread_join / aws_thread_current_at_exit / aws_thread_join_all_managed / lazy-join code runs over a "
         "sequentialising pthread model in which the solver decides where each created thread runs (at pthread_create, while join-all waits, or at a "
         "join): each function runs exactly once with the argument given at launch, on its own thread; join returns only after the function and its "
         "at-exit callbacks have completed; at-exit callbacks run once each, on that thread, in reverse order of registration; join_all_managed "
         "returns only after every managed thread - including one launched by another managed thread - has run and been joined exactly once, the "
         "managed count is then zero, it never waits for something that can no longer happen; no thread is joined twice or joins itself; a failed "
         "pthread_create is reported, leaves the count unchanged and never runs the function; wrapper, name copy and every at-exit record are "
         "released exactly once in every case.",
    note="Threads are SEQUENTIALISED: a thread runs to completion inside a gap of another flow (stack-like nesting, depth 1 for managed programs); "
         "interleavings that need two flows suspended mid-way are not covered (seed C20-B, a count update moved after pthread_create, needs exactly that "
         "and is missed). The wait stub is fair (at most one idle wait). pthread_*, mutex, condition variable and clock are harness stubs; each "
         "wrapper / at-exit record / name is its own statically typed object. Timed join-all, cpu pinning and attr failures are not covered.",
    technique="CBMC bounded symbolic execution of posix/thread.c + thread_shared.c over a sequentialising pthread model with solver-chosen schedule"),
 "C18": dict(
    text="Linked hash table and FIFO / LIFO / LRU caches: EVERY program of 3 operations (4 in the thorough tier) in which the solver chooses each operation "
         "(put, find, remove, clear; use-lru-element and get-mru-element for the LRU cache) and each key (4 key objects in 3 equality classes, so equal-but-"
         "distinct key pointers occur), for capacities 1..3, plus programs of 5-6 operations with fixed puts around free operations: after every "
         "operation the real iteration list, element count, find results and the key/value destructor counts equal an ordered reference map that "
         "implements the stated policy (insertion order; re-insert replaces and moves to the back; FIFO evicts the oldest, LIFO the most recent before "
         "the new one, LRU the least recently used where find/put/use count as use); the cache never exceeds its maximum and retains the entry just "
         "inserted; displaced nodes are released exactly once, none leaks, and tear-down destroys every remaining entry exactly once.",
    note="COMPOSITIONAL: source/hash_table.c is replaced by the map its contracts describe (stubs/hash_model.c: find/create/remove/clear/count; a key "
         "matches iff equal hash code and s_safe_eq_check); the real table is decided against those contracts in C02. Real code executed: all of "
         "linked_hash_table.c, cache.c, fifo_cache.c, lifo_cache.c, lru_cache.c, linked_list.inl. Not covered: element-pointer invalidation by the real "
         "table, allocation failure, programs longer than the bound.",
    technique="CBMC bounded symbolic execution of the real cache / linked-hash-table code over a contract model of the hash table; operations and keys are solver-chosen"),
 "C17": dict(
    text="Memory tracer (single-threaded clause): every program of 2 operations and scripted programs of 3-4 operations (acquire, calloc, realloc - from "
         "NULL, to zero, growing, shrinking, moved or in place at the solver's choice - and release; slot and sizes chosen by the solver) through a tracing "
         "allocator at each of the three levels, over a wrapped allocator with and without its own calloc/realloc: after every operation the reported byte "
         "total equals the sum of the requested sizes of the live allocations and the reported count their number (both zero at level NONE and once "
         "everything is released); every request is forwarded exactly once, calloc memory is zeroed, realloc keeps the contents, live blocks are "
         "undisturbed; each bookkeeping record (allocation info, stack record, tracer block) is released exactly once and destroy returns the wrapped "
         "allocator; the tracer's own writes stay inside its records for every backtrace depth.",
    note="PARTIAL: the 'any number of threads' clause is NOT decided (CBMC rejects interleavings of pointer-sharing threads) and aws_mem_tracer_dump is "
         "outside the claim. COMPOSITIONAL: the two hash tables are the contract model stubs/hash_model.c (the real table is decided against it in "
         "C02). Real code executed: source/memtrace.c (except dump) and the aws_mem_* dispatch layer of source/allocator.c. Sizes are 16 bits wide "
         "placed at bit 0 / 32 / 47 (fully unconstrained 64-bit sizes did not finish on any back end).",
    technique="CBMC bounded symbolic execution of the real tracer and allocator dispatch over a contract model of the hash table; operations, slots, sizes and realloc behaviour are solver-chosen"),
}
NA = {
 "C03": "small-block allocator: its page lookup masks addresses (addr & ~(PAGE-1)) over a pointer-rich heap; from-init histories did not finish symbolic "
        "execution in 900 s even for one operation (DESIGN.md section 5) and no further attempt fitted in this round; concurrency clause needs thread interleavings CBMC rejects",
 "C08": "thread scheduler: needs interleavings of pointer-sharing threads (CBMC: 'pointer handling for concurrency is unsound'); the sequentialised "
        "harness over task_scheduler.c did not finish symbolic execution (see C07: every program that pops the timed heap timed out), so nothing could be built on it",
 "C11": "JSON: cJSON's growing print buffer and recursive parser exceeded 12 GB / 240 s in every CBMC instance tried for the neighbouring parsers of this size "
        "(cbor, uri); numbers rest on libc strtod/sprintf %g which have no encodable semantics here. A harness for the object/array access clause alone was "
        "built in the last round (harness/C11: one typed object per cJSON node, reference ordered map with case-insensitive keys) but even a 4-operation "
        "script did not finish symbolic execution in 300 s (cJSON_Delete: recursion x sibling loop x three deallocations per node), so nothing is claimed",
 "C12": "XML well-formed traversal: harness with an independent reference parser was built (harness/C12), but CBMC finishes only when the document AND the "
        "callback choices are fully concrete (1-2 s); any symbolic document byte or per-node choice exceeded 240 s, and a fully concrete run is enumeration, "
        "not a solver verdict over inputs, so it is not claimed. Memory safety of the parser on arbitrary short documents is part of C04.",
 "C19": "date-time: formatting and the calendar are glibc's strftime/timegm/gmtime_r (outside /repo, no encodable semantics); the library's own parsers "
        "were planned (DESIGN.md C19) but not reached in this round",
}
NOT_APPLICABLE = {p: NA.get(p, PENDING) for p in ["C%02d" % i for i in range(1, 21)]}
