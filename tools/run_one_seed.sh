#!/bin/bash
# usage: run_one_seed.sh <seed-id>   (applies, runs quick check, reverts, restores evidence, records result)
cd /verif; id=$1; prop=${id%%-*}; d=seeded/$id
cp evidence/$prop.json /var/tmp/evidence_$prop.bak
git -C /repo apply /verif/$d/patch.diff || exit 2
out=$(./check $prop --tier quick 2>&1); rc=$?
git -C /repo checkout -- .
cp /var/tmp/evidence_$prop.bak evidence/$prop.json
first=$(echo "$out" | grep -m1 "counterexample" | sed "s/.*assertion='//; s/' at.*//")
nat=$(echo "$out" | grep -m1 "counterexample" | sed 's/.*native-replay=//')
if [ $rc -eq 1 ]; then res="detected"; else res="missed(rc=$rc)"; fi
python3 - "$d/meta.json" "$res" "$first" "$nat" <<'PY'
import json,sys
p,res,first,nat=sys.argv[1:5]
m=json.load(open(p)); m['check_result']=res; m['first_violated_assertion']=first; m['native_replay']=nat
m['how_checked']="git -C /repo apply patch.diff; ./check <property> --tier quick; git -C /repo checkout -- ."
json.dump(m,open(p,'w'),indent=1)
PY
echo "$id: $res ${first:+[$first]} ${nat:+native=$nat}"
echo "$out" | tail -4
