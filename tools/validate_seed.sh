#!/bin/bash
# usage: validate_seed.sh <PROP> <LETTER> <outdir-from-agent>
# Re-validates a seeded change in a fresh scratch worktree: applies, builds, runs the 451 tests,
# builds+runs the demo with the patch (must fail) and without (must pass); writes /verif/seeded/<PROP>-<LETTER>/
set -u
P=$1; L=$2; OUT=$3
WT=/tmp/wt/val_${P}_${L}
DST=/verif/seeded/${P}-${L}
rm -rf $WT; git -C /repo worktree prune; git -C /repo worktree add -q --detach $WT HEAD || exit 2
mkdir -p $DST; cp $OUT/patch_$L.diff $DST/patch.diff; cp $OUT/demo_$L.c $DST/demo.c
cd $WT
build() { cmake -G Ninja -S . -B _build -DCMAKE_BUILD_TYPE=RelWithDebInfo -DCMAKE_C_FLAGS=-Wno-error >/dev/null 2>&1 && cmake --build _build >/dev/null 2>&1; }
demo() { # some demos compile repo sources directly or need include path of the worktree
  sed "s#/tmp/wt/$P#$WT#g" $DST/demo.c > demo_local.c
  gcc -g -O1 -I$WT/include -I$WT/_build/generated/include -I$WT/source demo_local.c $WT/_build/libaws-c-common.a -lpthread -ldl -lm -o demo_bin 2>demo_build.log || { echo "DEMO-BUILD-FAILED"; cat demo_build.log | tail -5; return 99; }
  timeout 120 ./demo_bin > demo_out.log 2>&1; rc=$?; tail -3 demo_out.log; return $rc; }
git apply $DST/patch.diff || { echo "PATCH-DOES-NOT-APPLY"; exit 2; }
build || { echo "BUILD-FAILED-WITH-PATCH"; exit 2; }
T=$(ctest --test-dir _build -j8 --timeout 900 2>&1 | grep "tests passed\|tests failed" | tail -1)
echo "tests with patch: $T"
echo "--- demo with patch:"; demo; RC_WITH=$?
git checkout -- . ; build
echo "--- demo without patch:"; demo; RC_WITHOUT=$?
OK=false; case "$T" in "100% tests passed"*451) [ $RC_WITH -ne 0 ] && [ $RC_WITH -ne 99 ] && [ $RC_WITHOUT -eq 0 ] && OK=true;; esac
python3 - "$P" "$L" "$T" "$RC_WITH" "$RC_WITHOUT" "$OK" "$DST" "$OUT" <<'PY'
import sys,json,os,re
P,L,T,rw,rwo,ok,dst,out=sys.argv[1:]
notes=open(os.path.join(out,'notes.md')).read() if os.path.exists(os.path.join(out,'notes.md')) else ''
json.dump(dict(property=P, id=f"{P}-{L}", validated=(ok=='true'), tests_with_patch=T, demo_exit_with_patch=int(rw), demo_exit_without_patch=int(rwo),
  what_ran="tools/validate_seed.sh: fresh worktree of /repo HEAD; git apply patch.diff; cmake+ninja RelWithDebInfo; ctest -j8 (451 tests); demo.c linked against the patched libaws-c-common.a; then reverted, rebuilt, demo re-run",
  agent_notes=notes[:6000]), open(os.path.join(dst,'meta.json'),'w'), indent=1)
PY
echo "VALIDATED=$OK ($P-$L)"
cd /; git -C /repo worktree remove --force $WT
