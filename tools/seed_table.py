#!/usr/bin/env python3
"""Regenerates the seed table of DESIGN.md (between the table header and the next blank line) from seeded/*/meta.json."""
import json, glob, os, re
rows = []
for d in sorted(glob.glob('/verif/seeded/*/meta.json')):
    m = json.load(open(d))
    sid = os.path.basename(os.path.dirname(d))
    res = m.get('check_result', '')
    if m.get('strengthened') and 'strengthened' not in res:
        res += ' (after the check was strengthened in response to the first miss)'
    rows.append('| %s | %s | %s | %s |' % (sid, m.get('validated'), res, (m.get('first_violated_assertion') or '')[:70]))
p = '/verif/DESIGN.md'
s = open(p).read()
hdr = '| seed | validated (451 tests pass, demo fails/passes) | result of the property\'s quick check | first violated assertion |\n|---|---|---|---|\n'
a = s.index(hdr) + len(hdr)
b = s.index('\n\n', a)
s = s[:a] + '\n'.join(rows) + s[b:]
open(p, 'w').write(s)
print(len(rows), 'rows')
