#!/usr/bin/env python3
"""Regenerates /verif/MANIFEST.json from tools/manifest_data.py (claimed checks + not_applicable)."""
import json, os, sys
sys.path.insert(0, os.path.dirname(__file__))
import manifest_data as d
VERIF = os.path.dirname(os.path.dirname(os.path.abspath(__file__)))
props = [json.loads(l)["id"] for l in open(os.path.join(VERIF, "properties.jsonl"))]
checks = []
for pid in props:
    if pid in d.CLAIMED:
        c = d.CLAIMED[pid]
        checks.append(dict(
            property_id=pid,
            quick_cmd="./check %s --tier quick" % pid,
            thorough_cmd="./check %s --tier thorough" % pid,
            evidence_file="/verif/evidence/%s.json" % pid,
            replay_cmd_template="./check --replay {path}",
            engine="cbmc-harness",
            level_claimed=dict(category="model_checking", text=c["text"], design_ref=c.get("design_ref", "DESIGN.md §3")),
            level_note=c["note"],
            technique=c.get("technique", "bounded symbolic model checking of the real C sources (CBMC + SAT/SMT)"),
        ))
na = [dict(property_id=p, reason=d.NOT_APPLICABLE[p]) for p in props if p not in d.CLAIMED]
m = dict(
    version=1,
    setup_cmd="true",
    hooks=dict(guard="AWS_C_COMMON_VERIF", enable="goto-cc -DAWS_C_COMMON_VERIF (only the harness builds of the units that need a hook)",
               baseline_off_cmd="cmake -G Ninja -S /repo -B /repo/_build -DCMAKE_BUILD_TYPE=RelWithDebInfo -DCMAKE_C_FLAGS=-Wno-error && cmake --build /repo/_build && ctest --test-dir /repo/_build -j8 --timeout 900",
               source_commits=d.HOOK_COMMITS, add_only=True),
    engines=[dict(name="cbmc-harness", path="/verif/engine/check.py", serves_properties=sorted(d.CLAIMED),
                  kind_free_text="goto-cc of the real /repo sources + harness, per-loop bounded CBMC with unwinding assertions, vacuity witnesses, trace -> native ASan/UBSan replay")],
    checks=checks,
    notes=d.NOTES,
    not_applicable=na,
)
json.dump(m, open(os.path.join(VERIF, "MANIFEST.json"), "w"), indent=1)
print("claimed:", sorted(d.CLAIMED), "n/a:", [x["property_id"] for x in na])
