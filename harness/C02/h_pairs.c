/* C02 — the library's own hash/equality pairs: keys that compare equal must hash equally. */
#include "verif.h"
#include <aws/common/byte_buf.h>
#include <aws/common/hash_table.h>
#ifndef L
#    define L 2
#endif
void h_pair_ignore_case(void) { /* aws_hash_array_ignore_case / aws_hash_byte_cursor_ptr_ignore_case with aws_array_eq_ignore_case */
    uint8_t a[L + 1], b[L + 1];
    for (size_t i = 0; i < L; ++i) { a[i] = nd_u8(); b[i] = nd_u8(); }
    struct aws_byte_cursor ca = {.len = L, .ptr = a}, cb = {.len = L, .ptr = b};
    bool eq = aws_byte_cursor_eq_ignore_case(&ca, &cb);
    if (eq) {
        ASSERT(aws_hash_array_ignore_case(a, L) == aws_hash_array_ignore_case(b, L), "hash/eq pair (ignore case): equal keys hash equally");
        ASSERT(aws_hash_byte_cursor_ptr_ignore_case(&ca) == aws_hash_byte_cursor_ptr_ignore_case(&cb), "hash/eq pair (cursor, ignore case): equal keys hash equally");
        bool differ = false;
        for (size_t i = 0; i < L; ++i) if (a[i] != b[i]) differ = true;
        if (differ) WITNESS("equal ignoring case but different bytes");
    }
    WITNESS("pair");
}
void h_pair_u64(void) {
    uint64_t x = nd_u64(), y = nd_u64();
    if (aws_hash_compare_uint64_t_eq(&x, &y)) ASSERT(aws_hash_uint64_t_by_identity(&x) == aws_hash_uint64_t_by_identity(&y), "hash/eq pair (uint64 identity)");
    ASSERT(aws_hash_compare_uint64_t_eq(&x, &y) == (x == y), "uint64 equality");
    WITNESS("pair u64");
}
