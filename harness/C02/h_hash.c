/* C02 — hash table: one operation from an ARBITRARY table state satisfying the representation
 * invariant I, with an ARBITRARY hash function (table H[] of solver-chosen 64-bit values, so constant,
 * clustered, end-of-array and zero hashes are all instances) and keys that may be equal-but-distinct
 * pointers.  SIZE (slots) is a constant per job. */
#include "verif.h"
#include <aws/common/hash_table.h>
#include <aws/common/private/hash_table_impl.h>
#include <aws/common/error.h>
#include <string.h>
#ifndef SIZE
#    define SIZE 4
#endif
#define KN (SIZE + 1)          /* key equality classes */
#define MAXLOAD ((size_t)(0.95 * SIZE))
static uint8_t keyobj[2 * KN]; /* keyobj[c] and keyobj[c+KN] are distinct pointers of the same class c */
static uint8_t valobj[2 * KN + 2];
static uint64_t H[KN];
static unsigned kd[2 * KN], vd[2 * KN + 2]; /* destructor call counters per object */
static bool with_destructors;
static size_t kidx(const void *k) { return (size_t)((const uint8_t *)k - keyobj); }
static uint64_t hash_fn(const void *k) { return H[kidx(k) % KN]; }
static bool eq_fn(const void *a, const void *b) { return kidx(a) % KN == kidx(b) % KN; }
static void destroy_key(void *k) { kd[kidx(k)]++; }
static void destroy_val(void *v) { if (v) vd[(size_t)((uint8_t *)v - valobj)]++; }
static uint64_t norm(uint64_t h) { return h ? h : 1; }

static struct aws_hash_table map;
static struct hash_table_state *st;
/* ghost copy of the pre-state */
static bool occ0[SIZE]; static size_t cls0[SIZE], kp0[SIZE], vp0[SIZE]; static size_t count0;

static bool inv_I(const struct hash_table_state *s, size_t size) {
    size_t cnt = 0;
    size_t mask = size - 1;
    bool ok = s->size == size && s->mask == mask;
    for (size_t i = 0; i < size; ++i) {
        const struct hash_table_entry *e = &s->slots[i];
        if (e->hash_code) {
            cnt++;
            size_t ki = kidx(e->element.key);
            ok = ok && ki < 2 * KN && e->hash_code == norm(H[ki % KN]);
            size_t d = (i - (size_t)e->hash_code) & mask;
            if (d > 0) { /* Robin Hood order: the previous slot is occupied by an entry displaced at least d-1 */
                const struct hash_table_entry *p = &s->slots[(i - 1) & mask];
                ok = ok && p->hash_code != 0 && (((i - 1) - (size_t)p->hash_code) & mask) >= d - 1;
            }
            for (size_t j = 0; j < size; ++j)
                if (j < i && s->slots[j].hash_code) ok = ok && kidx(s->slots[j].element.key) % KN != ki % KN; /* no duplicate keys */
        }
    }
    return ok && s->entry_count == cnt;
}
static void mk_table(size_t size, size_t max_count) {
    for (size_t c = 0; c < KN; ++c) H[c] = nd_u64();
#ifdef DESTR
    with_destructors = DESTR;
#else
    with_destructors = nd_bool();
#endif
    st = verif_malloc(sizeof(struct hash_table_state) + size * sizeof(struct hash_table_entry));
    st->hash_fn = hash_fn; st->equals_fn = eq_fn;
    st->destroy_key_fn = with_destructors ? destroy_key : NULL;
    st->destroy_value_fn = with_destructors ? destroy_val : NULL;
    st->alloc = verif_allocator();
    st->size = size; st->mask = size - 1; st->max_load_factor = 0.95; st->max_load = (size_t)(0.95 * (double)size);
    size_t cnt = 0;
    for (size_t i = 0; i < SIZE; ++i)
        if (i < size) {
            bool o = nd_bool();
            size_t ki = nd_size(), vi = nd_size();
            ASSUME(ki < 2 * KN && vi < 2 * KN + 2);
            st->slots[i].hash_code = o ? norm(H[ki % KN]) : 0;
            st->slots[i].element.key = o ? &keyobj[ki] : NULL;
            st->slots[i].element.value = o ? &valobj[vi] : NULL;
            occ0[i] = o; cls0[i] = ki % KN; kp0[i] = ki; vp0[i] = vi;
            if (o) cnt++;
        }
    st->entry_count = cnt;
    count0 = cnt;
    ASSUME(cnt <= max_count);
    ASSUME(inv_I(st, size));
    map.p_impl = st;
}
static bool ghost_has(size_t c, size_t *slot) { for (size_t i = 0; i < SIZE; ++i) if (occ0[i] && cls0[i] == c) { *slot = i; return true; } return false; }
/* the table now holds exactly: the old entries, minus class `gone` (KN = none), plus class `added` (KN = none) */
static void chk_map(size_t gone, size_t added) {
    ASSERT(inv_I(map.p_impl, map.p_impl->size), "hash table: representation invariant re-established (counts, stored hashes, no duplicates, probe order)");
    size_t n = 0;
    for (size_t c = 0; c < KN; ++c) {
        size_t s0;
        bool should = (ghost_has(c, &s0) && c != gone) || c == added;
        struct aws_hash_element *e = NULL;
        aws_hash_table_find(&map, &keyobj[c + ((c & 1) ? KN : 0)], &e); /* look up through either pointer variant */
        ASSERT((e != NULL) == should, "hash table: find() agrees with the reference map for every key (collisions, wrap-around included)");
        if (should) n++;
        if (e && c != added && c != gone) ASSERT(e->key == &keyobj[kp0[s0]] && e->value == &valobj[vp0[s0]], "hash table: untouched entries keep their key and value pointers");
    }
    ASSERT(aws_hash_table_get_entry_count(&map) == n, "hash table: reported count equals the reference map size");
}
static void chk_no_destructor_calls_except(size_t kobj, size_t vobj) { /* 2*KN / 2*KN+2 = none */
    for (size_t i = 0; i < 2 * KN; ++i) ASSERT(kd[i] == ((with_destructors && i == kobj) ? 1u : 0u), "hash table: key destructor runs exactly once for a displaced key, never otherwise");
    for (size_t i = 0; i < 2 * KN + 2; ++i) ASSERT(vd[i] == ((with_destructors && i == vobj) ? 1u : 0u), "hash table: value destructor runs exactly once for a displaced value, never otherwise");
}

void h_ht_find(void) {
    mk_table(SIZE, MAXLOAD);
    chk_map(KN, KN);
    chk_no_destructor_calls_except(2 * KN, 2 * KN + 2);
    if (count0 == MAXLOAD) WITNESS("find in a table at maximum load");
    size_t s;
    if (ghost_has(0, &s) && ((s - (size_t)norm(H[0])) & (SIZE - 1)) >= 2) WITNESS("find a key displaced by >= 2");
    if (ghost_has(1, &s) && s < ((size_t)norm(H[1]) & (SIZE - 1))) WITNESS("find a key that wrapped around the end of the slot array");
}
/* put / create without resize (s_expand_table is cut: provably unreachable here) */
static void put_body(const bool create_only) {
    mk_table(SIZE, MAXLOAD);
    size_t ki = nd_size(), vi = nd_size();
    ASSUME(ki < 2 * KN && vi < 2 * KN + 2);
    size_t c = ki % KN, s0;
    bool existed = ghost_has(c, &s0);
    ASSUME(existed || count0 + 1 <= MAXLOAD); /* otherwise the table resizes: that step is h_ht_expand */
    int created = -1;
    if (create_only) {
        struct aws_hash_element *e = NULL;
        ASSERT(aws_hash_table_create(&map, &keyobj[ki], &e, &created) == AWS_OP_SUCCESS && e != NULL, "create succeeds");
        ASSERT(created == (existed ? 0 : 1), "create: was_created iff the key was absent");
        if (existed) ASSERT(e->key == &keyobj[kp0[s0]] && e->value == &valobj[vp0[s0]], "create on an existing key returns the stored element untouched");
        else { ASSERT(e->key == &keyobj[ki] && e->value == NULL, "create: new element has the key and a NULL value"); }
        chk_no_destructor_calls_except(2 * KN, 2 * KN + 2);
        if (!existed) { kp0[SIZE - 1] = kp0[SIZE - 1]; }
    } else {
        ASSERT(aws_hash_table_put(&map, &keyobj[ki], &valobj[vi], &created) == AWS_OP_SUCCESS, "put succeeds");
        ASSERT(created == (existed ? 0 : 1), "put: was_created iff the key was absent");
        struct aws_hash_element *e = NULL;
        aws_hash_table_find(&map, &keyobj[ki], &e);
        ASSERT(e && e->key == &keyobj[ki] && e->value == &valobj[vi], "put: the key now maps to the new value (and the new key pointer)");
        if (existed) chk_no_destructor_calls_except(kp0[s0] != ki ? kp0[s0] : 2 * KN, vp0[s0]);
        else chk_no_destructor_calls_except(2 * KN, 2 * KN + 2);
#ifdef VERIF_TIER_THOROUGH
        if (existed && kp0[s0] != ki) WITNESS("put overwrites through an equal-but-distinct key pointer");
#endif
    }
    chk_map(existed ? c : KN, c);
    if (!existed && count0 >= 2) WITNESS("insert into a table with >= 2 entries");
}
void h_ht_put(void) { put_body(false); }
void h_ht_create(void) { put_body(true); }
void h_ht_remove(void) {
    mk_table(SIZE, MAXLOAD);
    size_t ki = nd_size();
    ASSUME(ki < 2 * KN);
    size_t c = ki % KN, s0;
    bool existed = ghost_has(c, &s0);
    bool with_out = nd_bool();
    struct aws_hash_element out = {0};
    int present = -1;
    ASSERT(aws_hash_table_remove(&map, &keyobj[ki], with_out ? &out : NULL, &present) == AWS_OP_SUCCESS, "remove succeeds");
    ASSERT(present == (existed ? 1 : 0), "remove: was_present iff the key was stored");
    if (existed && with_out) ASSERT(out.key == &keyobj[kp0[s0]] && out.value == &valobj[vp0[s0]], "remove: out-parameter receives the stored pair");
    if (existed && !with_out) chk_no_destructor_calls_except(kp0[s0], vp0[s0]); else chk_no_destructor_calls_except(2 * KN, 2 * KN + 2);
    chk_map(existed ? c : KN, KN);
    if (existed && count0 == MAXLOAD) WITNESS("remove from a table at maximum load (back-shift)");
}
void h_ht_remove_element_and_clear(void) {
    mk_table(SIZE, MAXLOAD);
    if (nd_bool()) {
        size_t i = nd_size();
        ASSUME(i < SIZE && occ0[i]);
        ASSERT(aws_hash_table_remove_element(&map, &st->slots[i].element) == AWS_OP_SUCCESS, "remove_element succeeds");
        chk_no_destructor_calls_except(2 * KN, 2 * KN + 2);
        chk_map(cls0[i], KN);
        WITNESS("remove_element");
    } else {
        aws_hash_table_clear(&map);
        ASSERT(aws_hash_table_get_entry_count(&map) == 0 && inv_I(st, SIZE), "clear: empty, invariant holds");
        for (size_t i = 0; i < SIZE; ++i) if (occ0[i]) ASSERT(!with_destructors || (kd[kp0[i]] == 1 && vd[vp0[i]] >= 1), "clear: destructors run for every stored entry");
        for (size_t k = 0; k < 2 * KN; ++k) { bool stored = false; for (size_t i = 0; i < SIZE; ++i) if (occ0[i] && kp0[i] == k) stored = true; if (!stored) ASSERT(kd[k] == 0, "clear: no destructor for keys that were not stored"); }
        if (count0 >= 2) WITNESS("clear with >= 2 entries");
    }
}
/* full iteration with deletions through the iterator: every initially stored entry is visited exactly once */
void h_ht_iterate(void) {
    mk_table(SIZE, MAXLOAD);
    unsigned visits[KN];
    for (size_t c = 0; c < KN; ++c) visits[c] = 0;
    size_t deleted = 0, steps = 0;
    bool use_foreach_semantics = nd_bool(); (void)use_foreach_semantics;
    for (struct aws_hash_iter it = aws_hash_iter_begin(&map); !aws_hash_iter_done(&it); aws_hash_iter_next(&it)) {
        ASSERT(steps < SIZE, "iteration terminates within #slots steps");
        steps++;
        size_t ki = kidx(it.element.key);
        ASSERT(ki < 2 * KN, "iterator yields a stored key");
        visits[ki % KN]++;
        unsigned act = nd_u8() % 3; /* keep / delete / delete and destroy */
        if (act) { aws_hash_iter_delete(&it, act == 2); deleted++; }
    }
    for (size_t c = 0; c < KN; ++c) { size_t s; ASSERT(visits[c] == (ghost_has(c, &s) ? 1u : 0u), "iteration visits every stored entry exactly once, also when entries are deleted on the way"); }
    ASSERT(aws_hash_table_get_entry_count(&map) == count0 - deleted, "iteration: count reflects the deletions");
    ASSERT(inv_I(st, SIZE), "iteration with deletion: invariant holds afterwards");
    if (deleted >= 2 && count0 == MAXLOAD) WITNESS("two deletions during one iteration of a full table");
    WITNESS("iterate");
}
/* growth step: s_expand_table from a table of SIZE/2 slots into SIZE slots keeps exactly the same map */
void h_ht_expand(void) {
    enum { OLD = SIZE / 2 };
    mk_table(OLD, (size_t)(0.95 * OLD));
    size_t ki = nd_size(), vi = nd_size();
    ASSUME(ki < 2 * KN && vi < 2 * KN + 2);
    size_t c = ki % KN, s0;
    ASSUME(!ghost_has(c, &s0) && count0 + 1 > (size_t)(0.95 * OLD)); /* an insertion that must grow the table */
    int created = -1;
    ASSERT(aws_hash_table_put(&map, &keyobj[ki], &valobj[vi], &created) == AWS_OP_SUCCESS && created == 1, "put that grows the table succeeds");
    ASSERT(map.p_impl->size == SIZE, "table doubled");
    chk_map(KN, c);
    chk_no_destructor_calls_except(2 * KN, 2 * KN + 2);
    WITNESS("expand");
}
/* from the real constructor: init, a few puts with a symbolic hash function, then everything is findable; clean_up destroys each once */
void h_ht_init_program(void) {
    for (size_t c = 0; c < KN; ++c) H[c] = nd_u64();
    with_destructors = true;
    ASSERT(aws_hash_table_init(&map, verif_allocator(), 2, hash_fn, eq_fn, destroy_key, destroy_val) == AWS_OP_SUCCESS, "init");
    ASSERT(inv_I(map.p_impl, map.p_impl->size) && aws_hash_table_get_entry_count(&map) == 0, "init establishes the invariant");
    ASSERT(aws_hash_table_put(&map, &keyobj[0], &valobj[0], NULL) == AWS_OP_SUCCESS, "put 0");
    ASSERT(aws_hash_table_put(&map, &keyobj[1], &valobj[1], NULL) == AWS_OP_SUCCESS, "put 1");
    ASSERT(inv_I(map.p_impl, map.p_impl->size), "invariant after puts");
    struct aws_hash_element *e = NULL;
    ASSERT(aws_hash_table_find(&map, &keyobj[KN], &e) == AWS_OP_SUCCESS && e && e->value == &valobj[0], "find via an equal-but-distinct pointer");
    aws_hash_table_clean_up(&map);
    ASSERT(kd[0] == 1 && kd[1] == 1 && vd[0] == 1 && vd[1] == 1, "clean_up: destructors run exactly once per entry");
    WITNESS("init program");
}
