# C02 — hash table
SRC = ["source/hash_table.c", "source/common.c", "source/error.c", "source/math.c", "source/byte_buf.c", "source/string.c"]
STUBS = ["base.c", "alloc_direct.c", "mem0.c", "memchr.c"]


def spec(tier):
    units, jobs = {}, []
    size = 4  # 8 slots did not fit; both tiers use 4
    to = 700 if tier == "quick" else 3000
    hb = 2 * (size + 1) + 4
    HL = {"chk_no_destructor_calls_except": hb, "chk_map": hb, "mk_table": hb, "inv_I": hb, "ghost_has": hb, "h_ht_remove_element_and_clear": hb,
          "h_ht_iterate": hb, "h_ht_init_program": hb}
    units["ht"] = dict(harness=["C02/h_hash.c"], sources=SRC, stubs=STUBS, defines={"SIZE": size}, cuts=["s_expand_table"])
    for d in (0, 1):
        units["ht_d%d" % d] = dict(harness=["C02/h_hash.c"], sources=SRC, stubs=STUBS, defines={"SIZE": size, "DESTR": d}, cuts=["s_expand_table"])
        for e in (("h_ht_create",) if tier == "quick" else ("h_ht_create", "h_ht_put")):  # put: 815 s with cadical (measured) -> thorough only
            jobs.append(dict(unit="ht_d%d" % d, entry=e, unwind=size + 2, unwindset=HL, timeout=to, backend="cadical" if e == "h_ht_put" else "minisat",
                             bounds="%d slots, no resize, destructors %s, arbitrary hash table / key variants" % (size, "installed" if d else "absent"),
                             what="one operation from an arbitrary invariant state: " + e))
    for e in ("h_ht_find", "h_ht_remove", "h_ht_remove_element_and_clear", "h_ht_iterate"):
        jobs.append(dict(unit="ht", entry=e, unwind=size + 2, unwindset=HL, timeout=to,
                         bounds="%d slots (max load %d), %d key classes x 2 pointer variants, hash function = arbitrary table of 64-bit values, with/without destructors" % (size, int(0.95 * size), size + 1),
                         what="one operation from an arbitrary invariant state: " + e))
    for l in ((1, 2, 3) if tier == "quick" else (1, 2, 3, 4, 5, 6)):
        u = "pair%d" % l
        units[u] = dict(harness=["C02/h_pairs.c"], sources=SRC, stubs=STUBS, defines={"L": l})
        jobs.append(dict(unit=u, entry="h_pair_ignore_case", unwind=l + 2, backend="kissat", timeout=to, bounds="two arbitrary keys of %d bytes" % l,
                         what="library hash/eq pair (case-insensitive cursor / array): eq => same hash"))
    jobs.append(dict(unit="pair1", entry="h_pair_u64", unwind=2, bounds="two arbitrary 64-bit keys", what="library hash/eq pair (uint64 by identity)"))
    # h_ht_expand (growth step) and h_ht_init_program (from the real constructor) exhaust 12 GB (s_alloc_state/calloc path); kept in the
    # harness source, not run: resizing and init are NOT decided.
    meta = dict(functions_encoded=["source/hash_table.c: find, create, put, remove, remove_element, clear, iter_begin/next/done/delete, s_expand_table, init, clean_up"],
                bounds="%d slots" % size,
                stubs=["base.c", "alloc_direct.c", "mem0.c"], cuts=["s_expand_table replaced by assert-false/assume-false in the no-resize unit (the harness assumption makes it unreachable; the assertion proves that); the growth step is its own obligation"],
                out=["NOT DECIDED: the growth step s_expand_table and aws_hash_table_init (both harnesses exhaust 12 GB)", "tables larger than %d slots (the algorithms are size-uniform: argument, not solver result)" % size, "hash/eq pairs built on lookup3 (string, c-string, cursor, ptr): equal keys are byte-identical, so equal hashes follow from lookup3 being a function of the bytes -- not decided by a solver here",
                     "foreach wrapper, swap, move, aws_hash_table_eq"],
                assumptions=["representation invariant I (stored hash == hash_fn(key), no duplicate keys, count, Robin-Hood probe order) -- established by init, preserved by every operation (checked)"])
    return dict(units=units, jobs=jobs, meta=meta)
