/* C11 (object / array access clause only) — programs over ONE JSON object and ONE JSON array built through the aws_json_* API:
 * add / get / has / remove member, add / get / remove array element; operation, key and index chosen by the solver.  A reference
 * ordered map (keys compared case-INsensitively, as the vendored cJSON lookup does) and a reference sequence decide every result; after
 * every step the real member list / element list is walked through the public iteration API and compared with the reference (order,
 * key bytes, value identity).  The serialise / parse / number clauses of C11 are NOT part of this obligation. */
#include "verif.h"
#include <aws/common/json.h>
#include <aws/common/byte_buf.h>
#include <aws/common/error.h>
#include <external/cJSON.h>
#ifndef OPS
#    define OPS "***"
#endif
#define NOPS (sizeof(OPS) - 1)
#define NV 8
/* every cJSON node is its own top-level typed object (see DESIGN: pointers into pools are field-insensitive for CBMC) */
static cJSON cj0, cj1, cj2, cj3, cj4, cj5, cj6, cj7, cj8, cj9;
static cJSON *const cjp[10] = {&cj0, &cj1, &cj2, &cj3, &cj4, &cj5, &cj6, &cj7, &cj8, &cj9};
static bool cj_live[10];
static size_t cj_next;
void *verif_typed_acquire(size_t size) {
    if (size != sizeof(cJSON)) return NULL; /* strings come from malloc */
    ASSERT(cj_next < 10, "harness: enough cJSON nodes (bound)"); ASSUME(cj_next < 10);
#ifndef VERIF_NATIVE
    cJSON any; *cjp[cj_next] = any; /* arbitrary contents: the hook is a malloc, not a calloc */
#endif
    cj_live[cj_next] = true;
    return cjp[cj_next++];
}
bool verif_typed_release(void *p) {
    for (size_t i = 0; i < 10; ++i) if (p == (void *)cjp[i]) { ASSERT(cj_live[i], "every JSON node is released exactly once"); cj_live[i] = false; return true; }
    return false;
}
static size_t live_nodes(void) { size_t n = 0; for (size_t i = 0; i < 10; ++i) if (cj_live[i]) n++; return n; }
/* reference */
static uint8_t r_key[NV]; static struct aws_json_value *r_val[NV]; static size_t r_n;   /* object members in insertion order */
static struct aws_json_value *a_val[NV]; static size_t a_n;                               /* array elements */
static uint8_t lower(uint8_t c) { return (c >= 'A' && c <= 'Z') ? (uint8_t)(c + 32) : c; }
static long r_find(uint8_t k) { for (size_t i = 0; i < NV; ++i) if (i < r_n && lower(r_key[i]) == lower(k)) return (long)i; return -1; }
static size_t it_pos; static bool it_ok;
static int on_member(const struct aws_byte_cursor *key, const struct aws_json_value *v, bool *cont, void *ud) {
    (void)ud; *cont = true;
    if (!(it_pos < r_n && key->len == 1 && key->ptr[0] == r_key[it_pos] && v == r_val[it_pos])) it_ok = false;
    it_pos++;
    return AWS_OP_SUCCESS;
}
static int on_value(size_t idx, const struct aws_json_value *v, bool *cont, void *ud) {
    (void)ud; *cont = true;
    if (!(idx == it_pos && it_pos < a_n && v == a_val[it_pos])) it_ok = false;
    it_pos++;
    return AWS_OP_SUCCESS;
}
static uint8_t any_key(void) { uint8_t k = nd_u8(); ASSUME(k == 'a' || k == 'A' || k == 'b' || k == 'B'); return k; }
void h_json_access(void) {
    aws_json_module_init(verif_allocator());
    struct aws_json_value *obj = aws_json_value_new_object(verif_allocator());
    struct aws_json_value *arr = aws_json_value_new_array(verif_allocator());
    ASSERT(obj && arr && aws_json_value_is_object(obj) && aws_json_value_is_array(arr), "constructors");
    static const char ops[] = OPS;
    bool saw_refused = false, saw_remove_middle = false;
    for (size_t step = 0; step < NOPS; ++step) {
        char op = ops[step];
        if (op == '*') { static const char alphabet[] = "agrhAGR"; unsigned sel = nd_u8(); ASSUME(sel < 7); op = alphabet[sel]; }
        if (op == 'a') { /* add member */
            uint8_t k = any_key();
            struct aws_json_value *v = aws_json_value_new_boolean(verif_allocator(), nd_bool());
            ASSERT(v != NULL, "new_boolean");
            int rc = aws_json_value_add_to_object(obj, aws_byte_cursor_from_array(&k, 1), v);
            if (r_find(k) >= 0) {
                ASSERT(rc == AWS_OP_ERR, "add: a second member with the same key (ignoring case, like every lookup) is refused");
                aws_json_value_destroy(v); /* ownership stays with the caller */
                saw_refused = true;
            } else {
                ASSERT(rc == AWS_OP_SUCCESS, "add: a new key is accepted");
                r_key[r_n] = k; r_val[r_n] = v; r_n++;
            }
        } else if (op == 'g' || op == 'h') {
            uint8_t k = any_key();
            long i = r_find(k);
            if (op == 'g') ASSERT(aws_json_value_get_from_object(obj, aws_byte_cursor_from_array(&k, 1)) == (i >= 0 ? r_val[i] : NULL), "get: an added member is found and read back; an absent key gives NULL");
            else ASSERT(aws_json_value_has_key(obj, aws_byte_cursor_from_array(&k, 1)) == (i >= 0), "has_key agrees with the reference map");
        } else if (op == 'r') {
            uint8_t k = any_key();
            long i = r_find(k);
            int rc = aws_json_value_remove_from_object(obj, aws_byte_cursor_from_array(&k, 1));
            ASSERT(rc == (i >= 0 ? AWS_OP_SUCCESS : AWS_OP_ERR), "remove: succeeds iff the key is present");
            if (i >= 0) {
                if ((size_t)i + 1 < r_n) saw_remove_middle = true;
                for (size_t j = 0; j + 1 < NV; ++j) if (j >= (size_t)i && j + 1 < r_n) { r_key[j] = r_key[j + 1]; r_val[j] = r_val[j + 1]; }
                r_n--;
            }
        } else if (op == 'A') {
            struct aws_json_value *v = aws_json_value_new_null(verif_allocator());
            ASSERT(v != NULL && aws_json_value_add_array_element(arr, v) == AWS_OP_SUCCESS, "array add");
            a_val[a_n++] = v;
        } else if (op == 'G') {
            size_t i = nd_size();
            ASSUME(i < NV);
            struct aws_json_value *e = aws_json_get_array_element(arr, i);
            ASSERT(e == (i < a_n ? a_val[i] : NULL), "array indices follow insertion order; an index past the end gives NULL");
        } else if (op == 'R') {
            size_t i = nd_size();
            ASSUME(i < a_n); /* valid index */
            ASSERT(aws_json_value_remove_array_element(arr, i) == AWS_OP_SUCCESS, "array remove at a valid index succeeds");
            for (size_t j = 0; j + 1 < NV; ++j) if (j >= i && j + 1 < a_n) a_val[j] = a_val[j + 1];
            a_n--;
        }
        /* walk both containers through the public iteration API */
        it_pos = 0; it_ok = true;
        ASSERT(aws_json_const_iterate_object(obj, on_member, NULL) == AWS_OP_SUCCESS && it_ok && it_pos == r_n, "object: members in insertion order, keys byte for byte, values by identity");
        it_pos = 0; it_ok = true;
        ASSERT(aws_json_const_iterate_array(arr, on_value, NULL) == AWS_OP_SUCCESS && it_ok && it_pos == a_n, "array: elements in insertion order");
        ASSERT(aws_json_get_array_size(arr) == a_n, "array size");
        ASSERT(live_nodes() == 2 + r_n + a_n, "one node per live value (removed members / elements and refused values are released)");
    }
    bool nonempty = r_n >= 2 && a_n >= 1;
    aws_json_value_destroy(obj);
    aws_json_value_destroy(arr);
    ASSERT(live_nodes() == 0, "destroy releases every node");
    if (saw_refused) WITNESS("a duplicate key was refused");
    if (saw_remove_middle) WITNESS("a member that is not the last one was removed");
    if (nonempty) WITNESS("object with two members and a non-empty array");
    WITNESS("json access");
}
