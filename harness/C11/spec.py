# C11 — JSON: object / array access clause (serialise/parse/number clauses are not decided)
SRC = ["source/json.c", "source/external/cJSON.c", "source/string.c", "source/byte_buf.c", "source/common.c", "source/error.c", "source/math.c"]
STUBS = ["base.c", "alloc_direct.c"]


def spec(tier):
    units, jobs = {}, []
    scripts = ["***", "aa*g", "aaar", "AAR*", "a*a*"] if tier == "quick" else ["****", "aa*g", "aaar", "AAR*", "a*a*", "aa**", "AA**", "aaa*r", "a*r*a"]
    for ops in scripts:
        u = "j_" + ops
        units[u] = dict(harness=["C11/h_json.c"], sources=SRC, stubs=STUBS, native=False, defines={"OPS": '"%s"' % ops, "VERIF_TYPED_ACQUIRE": 1}, fp_restrict={
            "cJSON_New_Item.function_pointer_call.1": ["s_aws_cJSON_alloc"], "cJSON_strdup.function_pointer_call.1": ["s_aws_cJSON_alloc"],
            "cJSON_Delete.function_pointer_call.1": ["s_aws_cJSON_free"], "cJSON_Delete.function_pointer_call.2": ["s_aws_cJSON_free"], "cJSON_Delete.function_pointer_call.3": ["s_aws_cJSON_free"],
            "add_item_to_object.function_pointer_call.1": ["s_aws_cJSON_free"],
            "aws_json_const_iterate_object.function_pointer_call.1": ["on_member"], "aws_json_const_iterate_array.function_pointer_call.1": ["on_value"]})
        jobs.append(dict(unit=u, entry="h_json_access", unwind=8, unwindset={"recursion:cJSON_Delete": 3, "verif_typed_release": 11, "h_json_access": 9, "live_nodes": 11, "r_find": 9}, timeout=600 if tier == "quick" else 3000,
                         bounds="program %s on one object and one array (a add member, g get, h has_key, r remove member, A array add, G array get, R array remove, * = any); keys 1 character from {a,A,b,B}" % ops,
                         what="results and the iteration order equal a reference ordered map / sequence after every operation"))
    meta = dict(functions_encoded=["source/json.c: object and array API, iteration, destroy", "source/external/cJSON.c: the item list functions behind them"],
                bounds="programs of %d operations, up to 8 values" % max(len(s) for s in scripts),
                stubs=["base.c", "alloc_direct.c with one typed object per cJSON node (strings from malloc)"],
                out=["NOT DECIDED: serialisation, parsing, number formatting, duplicate/compare (cJSON print buffer and recursive parser did not fit; numbers rest on libc strtod / sprintf)",
                     "keys longer than one character, nested values"],
                assumptions=[])
    return dict(units=units, jobs=jobs, meta=meta)
