/* C13 (and the URI part of C04) — URI parse / build / percent-coding / query iteration.
 * Lengths are constants per job (N, PRE, SHAPE, PD); all content bytes are symbolic. */
#include "verif.h"
#include <uri.c> /* the unit under test is part of this TU: the parser's state functions are static */
#include <aws/common/byte_buf.h>
#include <aws/common/array_list.h>
#include <aws/common/error.h>
#include <string.h>
#ifndef N
#    define N 4
#endif
#ifndef PRE
#    define PRE 0
#endif
static void inside(struct aws_byte_cursor c, const struct aws_byte_buf *s) {
    if (c.len == 0) return; /* an empty view may carry any pointer */
    ASSERT(c.ptr >= s->buffer && (size_t)(c.ptr - s->buffer) <= s->len && c.len <= s->len - (size_t)(c.ptr - s->buffer), "uri: component view lies inside the URI object's own copy of the text");
}
static void all_inside(const struct aws_uri *u) {
    inside(u->scheme, &u->uri_str); inside(u->authority, &u->uri_str); inside(u->userinfo, &u->uri_str); inside(u->user, &u->uri_str);
    inside(u->password, &u->uri_str); inside(u->host_name, &u->uri_str); inside(u->path, &u->uri_str); inside(u->query_string, &u->uri_str);
    inside(u->path_and_query, &u->uri_str);
}

/* aws_uri_init_parse = zero the struct, copy the text, run s_init_from_uri_str.  s_init_from_uri_str dispatches through a table of
 * function pointers indexed by the parser state inside a loop; CBMC's encoding of that loop needs > 7 GB for a 2-byte URI (measured),
 * while the same state functions called in sequence need 1 s.  The harness therefore replaces ONLY the 12-line dispatcher by this
 * explicit sequencing (the state variable still decides what runs next; the real static state functions are executed); the
 * dispatcher itself is outside the claim. */
static int verif_uri_dispatch(struct aws_uri *uri) {
    struct uri_parser parser = {.state = ON_SCHEME, .uri = uri};
    struct aws_byte_cursor cur = aws_byte_cursor_from_buf(&uri->uri_str);
    if (parser.state == ON_SCHEME) s_parse_scheme(&parser, &cur);
    if (parser.state == ON_AUTHORITY) s_parse_authority(&parser, &cur);
    if (parser.state == ON_PATH) s_parse_path(&parser, &cur);
    if (parser.state == ON_QUERY_STRING) s_parse_query_string(&parser, &cur);
    ASSERT(parser.state >= FINISHED, "uri: the state machine reaches a final state after each state ran at most once, in order");
    if (parser.state == FINISHED) return AWS_OP_SUCCESS;
    aws_byte_buf_clean_up(&uri->uri_str);
    AWS_ZERO_STRUCT(*uri);
    return AWS_OP_ERR;
}
static int verif_uri_init_parse(struct aws_uri *uri, struct aws_allocator *allocator, const struct aws_byte_cursor *uri_str) {
    AWS_ZERO_STRUCT(*uri);
    uri->self_size = sizeof(struct aws_uri);
    uri->allocator = allocator;
    if (aws_byte_buf_init_copy_from_cursor(&uri->uri_str, allocator, *uri_str)) return AWS_OP_ERR;
    return verif_uri_dispatch(uri);
}

/* ---- C04: arbitrary bytes ---- */
void h_uri_parse_arbitrary(void) {
    uint8_t *t = verif_malloc(N ? N : 1);
    ND_FILL(t, N, N);
    struct aws_byte_cursor c = {.len = N, .ptr = N ? t : (nd_bool() ? t : NULL)};
    struct aws_uri u;
    int rc = verif_uri_init_parse(&u, verif_allocator(), &c);
    if (rc == AWS_OP_SUCCESS) {
        ASSERT(u.uri_str.len == N, "uri: keeps a copy of the whole input");
        all_inside(&u);
        struct aws_uri_param p;
        memset(&p, 0, sizeof p);
        for (size_t i = 0; i < N + 2; ++i) {
            if (!aws_uri_query_string_next_param(&u, &p)) break;
            inside(p.key, &u.uri_str);
            inside(p.value, &u.uri_str);
            ASSERT(i <= N, "uri: query iteration terminates");
        }
        aws_uri_clean_up(&u);
        WITNESS("uri parse accepts");
    } else {
        ASSERT(aws_last_error() != 0, "uri: failure reports a registered error");
        ASSERT(u.uri_str.buffer == NULL && u.uri_str.len == 0, "uri: failed parse leaves a zeroed object");
        WITNESS("uri parse rejects");
    }
}
void h_uri_decode_arbitrary(void) {
    uint8_t *t = verif_malloc(N ? N : 1);
    ND_FILL(t, N, N);
    struct aws_byte_cursor c = {.len = N, .ptr = t};
    struct aws_byte_buf out;
    aws_byte_buf_init(&out, verif_allocator(), PRE + 1);
    uint8_t pre[PRE + 1];
    for (size_t i = 0; i < PRE; ++i) out.buffer[i] = pre[i] = nd_u8();
    out.len = PRE;
    int rc = aws_byte_buf_append_decoding_uri(&out, &c);
    ASSERT(out.len <= out.capacity && out.len >= PRE && out.len <= PRE + N, "decode: output stays inside the buffer");
    for (size_t i = 0; i < PRE; ++i) ASSERT(out.buffer[i] == pre[i], "decode: existing content untouched");
    if (rc != AWS_OP_SUCCESS) { ASSERT(aws_last_error() == AWS_ERROR_MALFORMED_INPUT_STRING, "decode: bad escape reported"); WITNESS("decode rejects"); }
    else WITNESS("decode ok");
}

/* ---- C13 (c): percent-encoding alphabet and round trip ---- */
static bool unreserved(uint8_t c) { return (c >= 'a' && c <= 'z') || (c >= 'A' && c <= 'Z') || (c >= '0' && c <= '9') || c == '-' || c == '_' || c == '.' || c == '~'; }
static bool uphex(uint8_t c) { return (c >= '0' && c <= '9') || (c >= 'A' && c <= 'F'); }
static void encode_roundtrip(bool path) {
    uint8_t *t = verif_malloc(N ? N : 1);
    ND_FILL(t, N, N);
    struct aws_byte_cursor c = {.len = N, .ptr = t};
    struct aws_byte_buf enc, dec;
    aws_byte_buf_init(&enc, verif_allocator(), PRE + 1);
    uint8_t pre[PRE + 1];
    for (size_t i = 0; i < PRE; ++i) enc.buffer[i] = pre[i] = nd_u8();
    enc.len = PRE;
    int rc = path ? aws_byte_buf_append_encoding_uri_path(&enc, &c) : aws_byte_buf_append_encoding_uri_param(&enc, &c);
    ASSERT(rc == AWS_OP_SUCCESS, "encode succeeds");
    ASSERT(enc.len <= enc.capacity && enc.len >= PRE + N && enc.len <= PRE + 3 * N, "encode: output length within [n, 3n] after the existing content");
    for (size_t i = 0; i < PRE; ++i) ASSERT(enc.buffer[i] == pre[i], "encode: existing content untouched");
    size_t k = PRE;
    for (size_t i = 0; i < N; ++i) { /* one source byte at a time: literal unreserved (or '/' in paths) or %XX upper-case */
        ASSERT(k < enc.len, "encode: output covers every input byte");
        uint8_t ch = enc.buffer[k];
        if (ch == '%') {
            ASSERT(k + 2 < enc.len && uphex(enc.buffer[k + 1]) && uphex(enc.buffer[k + 2]), "encode: escapes are %XX with upper-case hex");
            ASSERT(!unreserved(t[i]) && !(path && t[i] == '/'), "encode: only characters outside the safe set are escaped");
            k += 3;
        } else {
            ASSERT(ch == t[i] && (unreserved(ch) || (path && ch == '/')), "encode: literal output only for unreserved characters (and '/' in paths)");
            k += 1;
        }
    }
    ASSERT(k == enc.len, "encode: nothing after the last input byte");
    aws_byte_buf_init(&dec, verif_allocator(), 1);
    struct aws_byte_cursor ec = {.len = enc.len - PRE, .ptr = enc.buffer + PRE};
    ASSERT(aws_byte_buf_append_decoding_uri(&dec, &ec) == AWS_OP_SUCCESS && dec.len == N, "decode(encode(x)) succeeds with the original length");
    for (size_t i = 0; i < N; ++i) ASSERT(dec.buffer[i] == t[i], "decode(encode(x)) == x");
    WITNESS("encode round trip");
}
void h_uri_encode_path(void) { encode_roundtrip(true); }
void h_uri_encode_param(void) { encode_roundtrip(false); }

/* ---- C13 (d): query-string iteration vs reference splitter, and vs list form ---- */
void h_query_iteration(void) {
    uint8_t *t = verif_malloc(N ? N : 1);
    ND_FILL(t, N, N);
    struct aws_byte_cursor q = {.len = N, .ptr = t};
    struct aws_uri_param p, lst[N + 1];
    memset(&p, 0, sizeof p);
    struct aws_array_list out;
    aws_array_list_init_static(&out, lst, N + 1, sizeof(struct aws_uri_param));
    ASSERT(aws_query_string_params(q, &out) == AWS_OP_SUCCESS, "query list form succeeds");
    size_t pos = 0, idx = 0; /* reference: non-empty '&'-separated pieces, key up to first '=' */
    for (size_t it = 0; it < N + 2; ++it) {
        bool more = aws_query_string_next_param(q, &p);
        while (pos < N && t[pos] == '&') pos++; /* skip empty pieces */
        if (pos >= N) { ASSERT(!more, "query iteration: stops after the last non-empty pair"); break; }
        ASSERT(more, "query iteration: yields every non-empty pair");
        size_t end = pos, eq = SIZE_MAX;
        for (size_t j = 0; j < N; ++j) if (j >= pos && end == j && t[j] != '&') { if (t[j] == '=' && eq == SIZE_MAX) eq = j; end = j + 1; }
        size_t klen = eq == SIZE_MAX ? end - pos : eq - pos;
        ASSERT(p.key.ptr == t + pos && p.key.len == klen, "query iteration: key is the text up to the first '='");
        if (eq == SIZE_MAX) ASSERT(p.value.len == 0, "query iteration: missing '=' gives an empty value");
        else ASSERT(p.value.ptr == t + eq + 1 && p.value.len == end - eq - 1, "query iteration: value is the text after the first '='");
        ASSERT(idx < aws_array_list_length(&out), "query list form has this pair");
        ASSERT(lst[idx].key.ptr == p.key.ptr && lst[idx].key.len == p.key.len && lst[idx].value.len == p.value.len &&
                   (p.value.len == 0 || lst[idx].value.ptr == p.value.ptr), "query list form agrees with iteration, in order");
        idx++;
        pos = end;
        if (idx == 2 && eq == SIZE_MAX) WITNESS("query: second pair without '='");
    }
    ASSERT(idx == aws_array_list_length(&out), "query list form has no extra pairs");
    if (idx >= 2) WITNESS("query: two pairs");
    WITNESS("query iteration");
}

/* ---- C13 (a)/(b): compose -> parse, builder -> parse ---- */
#ifndef SHAPE
#    define SHAPE 0x1F
#endif
#ifndef PD
#    define PD 2 /* number of port digits */
#endif
#define HAS_SCHEME (SHAPE & 1)
#define HAS_USER (SHAPE & 2)
#define HAS_PORT (SHAPE & 4)
#define HAS_PATH (SHAPE & 8)
#define HAS_QUERY (SHAPE & 16)
#define HAS_PASS (SHAPE & 32)
#define IPV6 (SHAPE & 64)
#define EMPTY_HOST (SHAPE & 128)
static uint8_t hostch(void) { uint8_t c = nd_u8(); ASSUME(c != '/' && c != '?' && c != '@' && c != ':' && c != '[' && c != ']' && c != 0); return c; }
static uint8_t userch(void) { uint8_t c = nd_u8(); ASSUME(c != '/' && c != '?' && c != '@' && c != ':' && c != 0); return c; }
#define CB 11
struct comp { uint8_t b[CB]; size_t n; };
static void put(struct comp *c, uint8_t x) { c->b[c->n++] = x; }
static void cat(uint8_t *dst, size_t *n, const struct comp *c) { for (size_t i = 0; i < CB; ++i) if (i < c->n) dst[(*n)++] = c->b[i]; }
static bool ceq(struct aws_byte_cursor v, const struct comp *c) {
    if (v.len != c->n) return false;
    for (size_t i = 0; i < CB; ++i) if (i < c->n && v.ptr[i] != c->b[i]) return false;
    return true;
}
static struct comp scheme, user, pass, host, port, path, query;
static uint64_t port_val;
static void mk_components(void) {
    scheme.n = user.n = pass.n = host.n = port.n = path.n = query.n = 0;
    if (HAS_SCHEME) { uint8_t a = nd_u8(); ASSUME(a >= 'a' && a <= 'z'); put(&scheme, a); }
    if (HAS_USER) { put(&user, userch()); if (HAS_PASS) put(&pass, userch()); }
    if (!EMPTY_HOST) { if (IPV6) { put(&host, hostch()); put(&host, ':'); put(&host, hostch()); } else { put(&host, hostch()); } }
    port_val = 0;
#ifdef PORTV
    /* a concrete 10-digit port (widest value the builder must format): symbolic 10-digit ports through the snprintf model did not finish */
    if (HAS_PORT) { static const char pv[] = PORTV; for (size_t i = 0; i < PD; ++i) { put(&port, (uint8_t)pv[i]); port_val = port_val * 10 + (uint64_t)(pv[i] - '0'); } }
#else
    if (HAS_PORT) for (size_t i = 0; i < PD; ++i) { uint8_t d = nd_u8(); ASSUME(d >= '0' && d <= '9'); put(&port, d); port_val = port_val * 10 + (d - '0'); }
#endif
    if (HAS_PATH) { put(&path, '/'); uint8_t c = nd_u8(); ASSUME(c != '?' && c != 0 && (HAS_SCHEME || c != ':')); put(&path, c); }
    if (HAS_QUERY) { uint8_t a = nd_u8(), b = nd_u8(); ASSUME(HAS_SCHEME || (a != ':' && b != ':')); put(&query, a); put(&query, b); }
}
static void check_parsed(const struct aws_uri *u, int rc) {
    if (HAS_PORT && port_val > UINT32_MAX) { ASSERT(rc == AWS_OP_ERR && aws_last_error() == AWS_ERROR_MALFORMED_INPUT_STRING, "uri: port beyond 2^32-1 is rejected"); WITNESS("uri port too large"); return; }
    ASSERT(rc == AWS_OP_SUCCESS, "uri: assembled URI parses");
    all_inside(u);
    ASSERT(ceq(u->scheme, &scheme), "uri: scheme");
    ASSERT(ceq(u->host_name, &host), "uri: host (IPv6 literal without brackets)");
    ASSERT(u->port == (uint32_t)port_val, "uri: port value");
    ASSERT(ceq(u->path, &path), "uri: path");
    ASSERT(ceq(u->query_string, &query), "uri: query string");
    if (HAS_USER) {
        ASSERT(ceq(u->user, &user), "uri: user");
        if (HAS_PASS) ASSERT(ceq(u->password, &pass), "uri: password");
        ASSERT(u->userinfo.len == user.n + (HAS_PASS ? 1 + pass.n : 0), "uri: userinfo");
    } else ASSERT(u->userinfo.len == 0 && u->user.len == 0, "uri: no userinfo");
    ASSERT(u->path_and_query.len == path.n + (HAS_QUERY ? 1 + query.n : 0), "uri: path_and_query length");
    size_t alen = (HAS_USER ? user.n + (HAS_PASS ? 1 + pass.n : 0) + 1 : 0) + host.n + (IPV6 ? 2 : 0) + (HAS_PORT ? 1 + port.n : 0);
    ASSERT(u->authority.len == alen, "uri: authority length");
    WITNESS("uri components match");
}
void h_uri_compose_parse(void) {
    mk_components();
    uint8_t s[40];
    size_t n = 0;
    if (HAS_SCHEME) { cat(s, &n, &scheme); s[n++] = ':'; s[n++] = '/'; s[n++] = '/'; }
    if (HAS_USER) { cat(s, &n, &user); if (HAS_PASS) { s[n++] = ':'; cat(s, &n, &pass); } s[n++] = '@'; }
    if (IPV6) s[n++] = '[';
    cat(s, &n, &host);
    if (IPV6) s[n++] = ']';
    if (HAS_PORT) { s[n++] = ':'; cat(s, &n, &port); }
    cat(s, &n, &path);
    if (HAS_QUERY) { s[n++] = '?'; cat(s, &n, &query); }
    /* the length is a compile-time constant of the shape: allocation sizes stay constant for the solver */
    enum { LEN = (HAS_SCHEME ? 4 : 0) + (HAS_USER ? (HAS_PASS ? 4 : 2) : 0) + (EMPTY_HOST ? 0 : (IPV6 ? 5 : 1)) + (HAS_PORT ? 1 + PD : 0) + (HAS_PATH ? 2 : 0) + (HAS_QUERY ? 3 : 0) };
    ASSERT(n == LEN, "harness: composed length matches the shape");
    struct aws_byte_cursor c = {.len = LEN, .ptr = s};
    struct aws_uri u;
    int rc = verif_uri_init_parse(&u, verif_allocator(), &c);
    if (LEN == 0) { ASSERT(rc == AWS_OP_ERR, "uri: empty string rejected"); WITNESS("uri empty"); return; }
    if (EMPTY_HOST && !HAS_USER && !HAS_PORT && !HAS_PATH && !HAS_QUERY) { /* "s://": nothing follows the scheme; the parser documents this as malformed input */
        ASSERT(rc == AWS_OP_ERR && aws_last_error() == AWS_ERROR_MALFORMED_INPUT_STRING, "uri: a scheme with nothing after it is rejected as malformed (empty authority and no path)");
        WITNESS("uri scheme only");
        return;
    }
    check_parsed(&u, rc);
}
/* the builder formats the port with snprintf("%u") (libc): decimal model, format asserted */
#ifndef VERIF_NATIVE
int snprintf(char *buf, size_t size, const char *fmt, ...) {
    ASSERT(fmt[0] == '%' && fmt[1] == 'u' && fmt[2] == 0, "snprintf model: only \"%u\" is modelled");
    __builtin_va_list ap;
    __builtin_va_start(ap, fmt);
    unsigned v = __builtin_va_arg(ap, unsigned);
    __builtin_va_end(ap);
    char tmp[10];
    int nd = 0;
    do { tmp[nd++] = (char)('0' + v % 10); v /= 10; } while (v && nd < 10);
    for (int i = 0; i < nd; ++i) if ((size_t)i + 1 < size) buf[i] = tmp[nd - 1 - i];
    if (size) buf[(size_t)nd < size ? (size_t)nd : size - 1] = 0;
    return nd;
}
#endif
static void builder_parse(const bool as_list) {
    mk_components();
    ASSUME(!HAS_PORT || (port_val != 0 && port_val <= UINT32_MAX && port.b[0] != '0')); /* builder takes the port as a number; 0 means "no port" */
    struct aws_uri_builder_options o;
    memset(&o, 0, sizeof o);
    o.scheme = (struct aws_byte_cursor){.len = scheme.n, .ptr = scheme.b};
    uint8_t hb[8]; size_t hn = 0;
    if (IPV6) hb[hn++] = '[';
    cat(hb, &hn, &host);
    if (IPV6) hb[hn++] = ']';
    o.host_name = (struct aws_byte_cursor){.len = hn, .ptr = hb};
    o.port = (uint32_t)port_val;
    o.path = (struct aws_byte_cursor){.len = path.n, .ptr = path.b};
    struct aws_uri_param qp[1];
    struct aws_array_list ql;
    if (HAS_QUERY && as_list) {
        ASSUME(query.b[0] != '=' && query.b[0] != '&' && query.b[1] != '&' && query.b[1] != '=');
        qp[0].key = (struct aws_byte_cursor){.len = 1, .ptr = &query.b[0]};
        qp[0].value = (struct aws_byte_cursor){.len = 1, .ptr = &query.b[1]};
        aws_array_list_init_static_from_initialized(&ql, qp, 1, sizeof qp[0]);
        o.query_params = &ql;
    } else {
        o.query_string = (struct aws_byte_cursor){.len = query.n, .ptr = query.b};
    }
    struct aws_uri u;
    (void)aws_uri_init_from_builder_options(&u, verif_allocator(), &o); /* its final s_init_from_uri_str call is cut (returns nondet, touches nothing) */
    if (hn == 0 && !HAS_PORT && !HAS_PATH && !HAS_QUERY) return;
    int rc = verif_uri_dispatch(&u); /* parse what the builder assembled */
    if (HAS_QUERY && as_list) { /* list form is written as key=value */
        ASSERT(rc == AWS_OP_SUCCESS, "uri: built URI parses");
        ASSERT(u.query_string.len == 3 && u.query_string.ptr[0] == query.b[0] && u.query_string.ptr[1] == '=' && u.query_string.ptr[2] == query.b[1], "uri builder: query list written as key=value");
        query.n = 3; query.b[2] = query.b[1]; query.b[1] = '=';
    }
    check_parsed(&u, rc);
}
void h_uri_builder_parse(void) { builder_parse(false); }
void h_uri_builder_parse_query_list(void) { builder_parse(true); }
