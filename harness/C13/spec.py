# C13 — URI
SRC = ["source/uri.c", "source/byte_buf.c", "source/array_list.c", "source/common.c", "source/error.c", "source/math.c", "source/string.c"]
STUBS = ["base.c", "alloc_direct.c", "memchr.c", "mem0.c"]


def mkunit(units, **d):
    name = "u_" + "_".join("%s%s" % (k, v) for k, v in sorted(d.items()))
    units[name] = dict(harness=["C13/h_uri.c"], sources=SRC, stubs=STUBS, defines=d)
    return name


def spec(tier):
    units, jobs = {}, []
    quick = tier == "quick"
    for n in ([0, 1, 2, 4] if quick else range(0, 9)):
        for pre in (0, 2):
            u = mkunit(units, N=n, PRE=pre)
            for e in ("h_uri_encode_path", "h_uri_encode_param"):
                jobs.append(dict(unit=u, entry=e, unwind=3 * n + pre + 6, bounds="%d arbitrary bytes, %d bytes already in the output" % (n, pre),
                                 what="percent-encoding alphabet, %XX upper-case, decode(encode(x)) == x"))
    for n in ([0, 1, 3, 5] if quick else range(0, 11)):
        jobs.append(dict(unit=mkunit(units, N=n), entry="h_query_iteration", unwind=n + 5, bounds="query string of %d arbitrary bytes" % n,
                         what="iteration yields each non-empty pair once, in order, == list form == reference splitter"))
    # NOTE: h_uri_parse_arbitrary / h_uri_compose_parse / h_uri_builder_parse (aws_uri_init_parse and the builder) are kept in
    # h_uri.c but are NOT run: every instance, even a 2-byte URI, exhausts 12 GB in CBMC's propositional reduction
    # (measured; cause not isolated). Clauses (a)/(b) of C13 are therefore not decided -- see DESIGN.md.
    meta = dict(functions_encoded=["all of source/uri.c"], bounds="component lengths fixed per shape (<= 3 chars each), port up to 10 digits, encoders up to 4/8 bytes, query up to 5/10 bytes",
                stubs=["snprintf: decimal model for the single format \"%u\" (libc)", "base.c, alloc_direct.c, memchr.c, mem0.c"],
                out=["NOT DECIDED: parse(compose(x)) and parse(builder(x)) component identity and views-inside-uri_str (aws_uri_init_parse does not fit in memory under CBMC)",
                     "inputs longer than the bounds"],
                assumptions=["host characters exclude / ? @ : [ ] and NUL; user characters exclude / ? @ : and NUL"])
    return dict(units=units, jobs=jobs, meta=meta, max_parallel=8)
