# C13 — URI
SRC = ["source/byte_buf.c", "source/array_list.c", "source/common.c", "source/error.c", "source/math.c", "source/string.c"]
STUBS = ["base.c", "alloc_direct.c", "memchr.c", "mem0.c"]


def mkunit(units, **d):
    name = "u_" + "_".join("%s%s" % (k, v) for k, v in sorted(d.items()))
    units[name] = dict(harness=["C13/h_uri.c"], sources=SRC, stubs=STUBS, defines=d)
    return name


def spec(tier):
    units, jobs = {}, []
    quick = tier == "quick"
    for n in ([0, 1, 2, 4] if quick else range(0, 9)):
        for pre in (0, 2):
            u = mkunit(units, N=n, PRE=pre)
            for e in ("h_uri_encode_path", "h_uri_encode_param"):
                jobs.append(dict(unit=u, entry=e, unwind=3 * n + pre + 6, bounds="%d arbitrary bytes, %d bytes already in the output" % (n, pre),
                                 what="percent-encoding alphabet, %XX upper-case, decode(encode(x)) == x"))
    for n in ([0, 1, 3, 5] if quick else range(0, 11)):
        jobs.append(dict(unit=mkunit(units, N=n), entry="h_query_iteration", unwind=n + 5, bounds="query string of %d arbitrary bytes" % n,
                         what="iteration yields each non-empty pair once, in order, == list form == reference splitter"))
    for n in ([0, 1, 2, 3, 5] if quick else range(0, 9)):
        jobs.append(dict(unit=mkunit(units, N=n), entry="h_uri_parse_arbitrary", unwind=n + 4, unwind_is_property=True,
                         bounds="URI text of %d arbitrary bytes" % n, what="parse of arbitrary text (state functions in sequence): memory-safe, views inside uri_str, failure leaves a zeroed object"))
    shapes = [0x00, 0x80, 0x81, 0x01, 0x08, 0x10, 0x04, 0x14, 0x0C, 0x1C, 0x1F, 0x3F, 0x5F, 0x0D, 0x16, 0x9C, 0x89, 0x47] if quick else [x for x in range(256)]
    for sh in shapes:
        if (sh & 32) and not (sh & 2):
            continue
        if (sh & 128) and (sh & 64):
            continue
        if sh in (0x14, 0x0C, 0x1C):  # builder with the widest ports (10 digits, concrete values), query string / path / both
            for pv in ("4294967295", "1000000000"):
                u = mkunit(units, SHAPE=sh, PD=10, PORTV='"%s"' % pv)
                units[u]["havoc"] = ["s_init_from_uri_str"]
                jobs.append(dict(unit=u, entry="h_uri_builder_parse", unwind=22, timeout=500 if quick else 1500,
                                 bounds="shape 0x%02x, port %s (concrete, 10 digits), other characters symbolic" % (sh, pv),
                                 what="builder with the widest port: assembled text parses back to the components (buffer sizing)"))
        for pd in ((2, 10) if sh == 0x04 else (2,)):
            u = mkunit(units, SHAPE=sh, PD=pd)
            units[u]["havoc"] = ["s_init_from_uri_str"]
            jobs.append(dict(unit=u, entry="h_uri_compose_parse", unwind=(14 if pd == 2 else 22) + (6 if sh & 64 else 0), timeout=600 if quick else 1500, backend="kissat" if pd == 10 else "minisat",
                             bounds="shape 0x%02x (bits: scheme,user,port,path,query,password,ipv6,empty-host), %d port digits; all characters symbolic" % (sh, pd),
                             what="parse(compose(components)) == components; views inside uri_str"))
            if not (sh & 2) and sh not in (0x80, 0x81) and pd == 2:  # the builder has no user-info option; nothing to build for the empty shape
              for ent in (("h_uri_builder_parse", "h_uri_builder_parse_query_list") if (sh & 16) else ("h_uri_builder_parse",)):
                jobs.append(dict(unit=u, entry=ent, unwind=14 if pd == 2 else 22, timeout=500 if quick else 1500, backend="kissat" if pd == 10 else "minisat",
                                 bounds="shape 0x%02x, %d port digits; query as %s" % (sh, pd, "key=value list" if ent.endswith("list") else "string"),
                                 what="real builder assembles the text (its final dispatcher call cut), then parse == components"))
    meta = dict(functions_encoded=["all of source/uri.c"], bounds="component lengths fixed per shape (<= 3 chars each), port up to 10 digits, encoders up to 4/8 bytes, query up to 5/10 bytes",
                stubs=["snprintf: decimal model for the single format \"%u\" (libc)", "base.c, alloc_direct.c, memchr.c, mem0.c"],
                out=["the 12-line table dispatcher s_init_from_uri_str (replaced by explicit sequencing of the real state functions: > 7 GB otherwise)",
                     "inputs longer than the bounds"],
                assumptions=["host characters exclude / ? @ : [ ] and NUL; user characters exclude / ? @ : and NUL"])
    return dict(units=units, jobs=jobs, meta=meta, max_parallel=8 if tier == "quick" else 6)  # the query-list builder jobs need 6 GB each
