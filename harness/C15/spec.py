# C15 — ring buffer
SRC = ["source/ring_buffer.c", "source/byte_buf.c", "source/common.c", "source/error.c"]


def spec(tier):
    smax = 12 if tier == "quick" else 40
    units = {"rb": dict(harness=["C15/h_ring.c"], sources=SRC, stubs=["base.c", "alloc_direct.c", "mem0.c"], defines={"SMAX": smax},
                        pre_include=["harness/C15/verif_atomics.h"])}
    jobs = []
    for e, w in [("h_ring_acquire", "one acquire from an arbitrary J-state"), ("h_ring_acquire_up_to", "one acquire_up_to from an arbitrary J-state"),
                 ("h_ring_release", "release of the oldest of 1..3 outstanding buffers"),
                 ("h_ring_interleaved", "one acquire (either form) racing 0..2 FIFO releases at every atomic access"),
                 ("h_ring_program", "init; acquire a; acquire b; release a; acquire c")]:
        jobs.append(dict(unit="rb", entry=e, unwind=6, object_bits=12,
                         bounds="ring size 1..%d symbolic, head/tail offsets symbolic (all J-states), request sizes unconstrained 64-bit, <= 3 ghost outstanding buffers" % smax,
                         what=w))
    meta = dict(functions_encoded=["all of source/ring_buffer.c", "ring_buffer.inl", "atomics_gnu.inl load/store (via schedule-point macros)"],
                bounds="ring size <= %d; one acquire racing <= 2 releases" % smax,
                stubs=["verif_atomics.h (force-included): __atomic_load_n/__atomic_store_n become plain accesses surrounded by verif_yield() schedule points",
                       "base.c, alloc_direct.c, mem0.c"],
                out=["memory orderings weaker than sequential consistency (a weakened memory_order argument is not detectable)",
                     "more than one acquire call in flight (the API allows a single acquirer thread)", "rings larger than %d bytes" % smax],
                assumptions=["single acquirer thread, single releaser thread releasing in acquisition order (documented usage)",
                             "the releaser's only shared action is the atomic store of tail, so whole release() calls at the acquirer's atomic accesses cover every interleaving under SC"])
    return dict(units=units, jobs=jobs, meta=meta)
