/* force-included in the C15 harness build only (goto-cc -include): every atomic load/store of the
 * ring buffer's head/tail becomes a schedule point at which the OTHER thread (the releaser) may run.
 * No change to /repo sources. Sequential consistency is assumed (CBMC has no C11 memory model). */
#ifndef VERIF_ATOMICS_H
#define VERIF_ATOMICS_H
void verif_yield(void);
#define __atomic_load_n(ptr, mo) (verif_yield(), *(ptr))
#define __atomic_store_n(ptr, val, mo) (verif_yield(), (void)(*(ptr) = (val)), verif_yield())
#endif
