/* C15 — ring buffer.  State abstraction J (checked to be established by init and preserved by
 * acquire/acquire_up_to/release): with base=0, S=size, h=head, t=tail offsets
 *   EMPTY   : h == t               nothing outstanding
 *   LINEAR  : t <  h <= S          outstanding buffers tile [t,h) contiguously in FIFO order
 *   WRAPPED : h <  t <= S, h >= 1  outstanding buffers tile a prefix of [t,S) (possibly none) then
 *                                  [0,h) contiguously, FIFO order = high part first
 * Every outstanding buffer lies inside occ(h,t) = [t,h) resp. [t,S) u [0,h).                     */
#include "verif.h"
#include <aws/common/ring_buffer.h>
#include <aws/common/byte_buf.h>
#include <aws/common/error.h>
#ifndef SMAX
#    define SMAX 12
#endif
static struct aws_ring_buffer rb;
static uint8_t *base;
static size_t S;

/* ghost FIFO of outstanding buffers (oldest first) for the release / interleaving harnesses */
#define KMAX 3
static struct aws_byte_buf gb[KMAX];
static size_t goff[KMAX], glen[KMAX];
static size_t gk, greleased; /* greleased = how many of the oldest have been released so far */
static bool yield_enabled, in_yield;
static unsigned yield_budget;

void verif_yield(void) {
    if (!yield_enabled || in_yield) return;
    in_yield = true;
    /* the releaser thread may complete 0..budget whole release() calls here, in FIFO order */
    for (unsigned i = 0; i < 2; ++i)
        if (yield_budget > 0 && greleased < gk && nd_bool()) {
            aws_ring_buffer_release(&rb, &gb[greleased]);
            greleased++;
            yield_budget--;
        }
    in_yield = false;
}

static size_t H(void) { return (size_t)((uint8_t *)rb.head.value - base); }
static size_t T(void) { return (size_t)((uint8_t *)rb.tail.value - base); }
static bool in_occ(size_t x, size_t h, size_t t) { /* byte x is inside the occupied region */
    if (h == t) return false;
    if (t < h) return x >= t && x < h;
    return x >= t || x < h;
}
static bool J(size_t h, size_t t) { return h <= S && t <= S && (h == t || t < h || (h < t && h >= 1)) && (h != 0 || t == 0); }

static void mk_ring(void) {
    S = nd_size();
    ASSUME(S >= 1 && S <= SMAX);
    base = verif_malloc(SMAX);
    rb.allocator = verif_allocator();
    rb.allocation = base;
    rb.allocation_end = base + S;
    size_t h = nd_size(), t = nd_size();
    ASSUME(J(h, t));
    rb.head.value = base + h;
    rb.tail.value = base + t;
}
/* ghost buffers consistent with (h,t): returns false if this (h,t,k) combination has no layout */
static void mk_ghosts(void) {
    size_t h = H(), t = T();
    gk = nd_size();
    ASSUME(gk <= KMAX);
    greleased = 0;
    if (h == t) { ASSUME(gk == 0); return; }
    ASSUME(gk >= 1);
    size_t wrap = nd_size(); /* index of the first buffer that lives in the low part; gk = no low part */
    if (t < h) ASSUME(wrap == gk); else ASSUME(wrap < gk);
    size_t pos = t;
    for (size_t i = 0; i < KMAX; ++i)
        if (i < gk) {
            if (i == wrap) pos = 0;
            glen[i] = nd_size();
            ASSUME(glen[i] >= 1 && glen[i] <= S);
            goff[i] = pos;
            pos += glen[i];
            ASSUME(pos <= S);
            if (i < wrap && t > h) ASSUME(pos <= S);
            gb[i].buffer = base + goff[i];
            gb[i].capacity = glen[i];
            gb[i].len = nd_size() % (glen[i] + 1);
            gb[i].allocator = NULL;
        }
    ASSUME(pos == h); /* newest buffer ends at head */
}

static void post_acquire(int rc, const struct aws_byte_buf *d, size_t h0, size_t t0, size_t minsz, size_t req, bool check_region) {
    size_t h = H(), t = T();
    if (rc != AWS_OP_SUCCESS) {
        ASSERT(aws_last_error() == AWS_ERROR_OOM || aws_last_error() == AWS_ERROR_INVALID_ARGUMENT, "acquire: failure reports a registered error");
        ASSERT(h == h0, "acquire failure: head unchanged");
        ASSERT(d->buffer == NULL && d->capacity == 0, "acquire failure: no buffer handed out");
        return;
    }
    ASSERT(d->buffer != NULL && d->buffer >= base && (size_t)(d->buffer - base) <= S, "acquire: buffer starts inside the ring");
    size_t off = (size_t)(d->buffer - base), n = d->capacity;
    ASSERT(n <= S - off, "acquire: buffer ends inside the ring");
    ASSERT(n >= minsz && n <= req && n >= 1, "acquire: size is exactly the request (or between minimum and request)");
    ASSERT(d->len == 0 && d->allocator == NULL, "acquire: fresh empty buffer");
    ASSERT(J(h, t), "acquire: state invariant re-established");
    ASSERT(h == off + n, "acquire: head is the end of the newest buffer");
    if (check_region) {
        size_t x = nd_size();
        ASSUME(x < S);
        if (x >= off && x < off + n) {
            ASSERT(!in_occ(x, h0, t0), "acquire: new buffer does not overlap anything outstanding (occupied region)");
            ASSERT(in_occ(x, h, t), "acquire: new buffer is inside the new occupied region");
        }
        if (in_occ(x, h0, t0)) ASSERT(in_occ(x, h, t), "acquire: everything previously outstanding is still protected");
    }
}

void h_ring_acquire(void) {
    mk_ring();
    size_t h0 = H(), t0 = T();
    size_t n = nd_size(); /* unconstrained: 0, 1..S, S+1, huge */
    struct aws_byte_buf d = {0};
    int rc = aws_ring_buffer_acquire(&rb, n, &d);
    if (n == 0) { ASSERT(rc == AWS_OP_ERR, "acquire(0) is refused"); return; }
    post_acquire(rc, &d, h0, t0, n, n, true);
    if (h0 == t0) {
        ASSERT((rc == AWS_OP_SUCCESS) == (n <= S), "acquire: with nothing outstanding every request <= ring size succeeds");
        if (rc == AWS_OP_SUCCESS && n == S) WITNESS("acquire whole ring");
    }
    if (rc == AWS_OP_SUCCESS && t0 < h0 && H() < T()) WITNESS("acquire wrapped to the start");
    if (rc == AWS_OP_SUCCESS && t0 > h0) WITNESS("acquire in wrapped state");
    if (rc != AWS_OP_SUCCESS && n <= S && h0 != t0) WITNESS("acquire OOM with outstanding buffers");
}

void h_ring_acquire_up_to(void) {
    mk_ring();
    size_t h0 = H(), t0 = T();
    size_t mn = nd_size(), n = nd_size();
    ASSUME(mn <= n); /* documented precondition */
    struct aws_byte_buf d = {0};
    int rc = aws_ring_buffer_acquire_up_to(&rb, mn, n, &d);
    if (n == 0 || mn == 0) { ASSERT(rc == AWS_OP_ERR && aws_last_error() == AWS_ERROR_INVALID_ARGUMENT, "acquire_up_to(0) refused"); return; }
    post_acquire(rc, &d, h0, t0, mn, n, true);
    if (h0 == t0) ASSERT((rc == AWS_OP_SUCCESS) == (mn <= S), "acquire_up_to: with nothing outstanding succeeds iff minimum <= ring size");
    if (rc == AWS_OP_SUCCESS && d.capacity < n && d.capacity > mn) WITNESS("acquire_up_to partial grant");
    if (rc == AWS_OP_SUCCESS && t0 < h0 && H() < T()) WITNESS("acquire_up_to wrapped to the start");
    if (rc != AWS_OP_SUCCESS && h0 != t0 && mn <= S) WITNESS("acquire_up_to OOM");
}

void h_ring_release(void) {
    mk_ring();
    mk_ghosts();
    ASSUME(gk >= 1);
    size_t h0 = H();
    size_t end0 = goff[0] + glen[0];
    ASSERT(aws_ring_buffer_buf_belongs_to_pool(&rb, &gb[0]), "outstanding buffer belongs to the pool");
    aws_ring_buffer_release(&rb, &gb[0]);
    ASSERT(gb[0].buffer == NULL && gb[0].capacity == 0 && gb[0].len == 0, "release zeroes the caller's struct");
    size_t h = H(), t = T();
    ASSERT(h == h0 && t == end0, "release: tail moves to the end of the released (oldest) buffer, head untouched");
    ASSERT(J(h, t), "release: state invariant re-established");
    for (size_t i = 1; i < KMAX; ++i)
        if (i < gk) {
            size_t x = nd_size();
            ASSUME(x >= goff[i] && x < goff[i] + glen[i]);
            ASSERT(in_occ(x, h, t), "release: buffers still outstanding stay inside the occupied region");
        }
    if (gk == 1) {
        ASSERT(h == t, "release of the last outstanding buffer leaves the ring empty");
        struct aws_byte_buf d = {0};
        ASSERT(aws_ring_buffer_acquire(&rb, S, &d) == AWS_OP_SUCCESS && d.capacity == S, "after everything is released the full capacity is available again");
        WITNESS("release last");
    }
    if (gk == 3 && T() > H()) WITNESS("release in wrapped state with 3 outstanding");
}

/* all interleavings of ONE acquire (either form) with up to 2 FIFO releases: the releaser runs whole
 * release() calls at any of the acquirer's atomic loads/stores (before and after each) */
void h_ring_interleaved(void) {
    mk_ring();
    mk_ghosts();
    size_t h0 = H();
    yield_budget = 2;
    yield_enabled = true;
    bool upto = nd_bool();
    size_t mn = nd_size(), n = nd_size();
    ASSUME(n >= 1 && mn >= 1 && mn <= n);
    if (!upto) mn = n;
    struct aws_byte_buf d = {0};
    int rc = upto ? aws_ring_buffer_acquire_up_to(&rb, mn, n, &d) : aws_ring_buffer_acquire(&rb, n, &d);
    yield_enabled = false;
    size_t rel_at_return = greleased;
    if (rc == AWS_OP_SUCCESS) {
        ASSERT(d.buffer != NULL && d.buffer >= base, "interleaved: buffer starts inside the ring");
        size_t off = (size_t)(d.buffer - base), cap = d.capacity;
        ASSERT(off <= S && cap <= S - off, "interleaved: buffer lies inside the ring's storage");
        ASSERT(cap >= mn && cap <= n, "interleaved: size between minimum and request");
        for (size_t i = 0; i < KMAX; ++i)
            if (i < gk && i >= rel_at_return) /* not yet released when acquire returned */
                ASSERT(off + cap <= goff[i] || goff[i] + glen[i] <= off, "interleaved: new buffer disjoint from every buffer not yet released");
        ASSERT(H() == off + cap, "interleaved: head is the end of the newest buffer");
        ASSERT(J(H(), T()), "interleaved: state invariant holds afterwards");
        if (rel_at_return == 2 && gk == 3) WITNESS("two releases landed during the acquire");
        if (rel_at_return >= 1 && off == 0 && h0 != 0) WITNESS("release landed mid-acquire and the grant wrapped to the start");
    } else {
        ASSERT(H() == h0, "interleaved: failed acquire leaves head");
    }
    WITNESS("interleaved");
}

/* init + short FIFO program from the real constructor */
void h_ring_program(void) {
    S = nd_size();
    ASSUME(S >= 1 && S <= SMAX);
    ASSERT(aws_ring_buffer_init(&rb, verif_allocator(), S) == AWS_OP_SUCCESS, "init");
    base = rb.allocation;
    ASSERT(H() == 0 && T() == 0 && rb.allocation_end == base + S, "init: empty ring of the requested size");
    struct aws_byte_buf a = {0}, b = {0}, c = {0};
    size_t na = nd_size(), nb = nd_size(), nc = nd_size();
    ASSUME(na >= 1 && nb >= 1 && nc >= 1);
    if (aws_ring_buffer_acquire(&rb, na, &a) != AWS_OP_SUCCESS) { ASSERT(na > S, "prog: first acquire fails only if larger than the ring"); return; }
    int rb_ = aws_ring_buffer_acquire(&rb, nb, &b);
    if (rb_ == AWS_OP_SUCCESS) ASSERT(b.buffer >= a.buffer + a.capacity || b.buffer + b.capacity <= a.buffer, "prog: a,b disjoint");
    size_t a_off = (size_t)(a.buffer - base), a_cap = a.capacity;
    aws_ring_buffer_release(&rb, &a);
    int rc_ = aws_ring_buffer_acquire(&rb, nc, &c);
    if (rc_ == AWS_OP_SUCCESS && rb_ == AWS_OP_SUCCESS) {
        ASSERT(c.buffer >= b.buffer + b.capacity || c.buffer + c.capacity <= b.buffer, "prog: c disjoint from outstanding b");
        if ((size_t)(c.buffer - base) < a_off + a_cap && rb_ == AWS_OP_SUCCESS) WITNESS("prog: c reuses released space");
    }
    ASSERT(J(H(), T()), "prog: invariant");
    WITNESS("program");
}
