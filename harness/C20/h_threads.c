/* C20 — threads: launch / join / at-exit / managed threads, with the schedule chosen by the solver.
 *
 * CBMC cannot interleave pthread-created threads that share pointers, so threads are SEQUENTIALISED at synchronisation calls:
 * pthread_create only records the new thread; a recorded thread runs its REAL thread function (thread_fn from posix/thread.c)
 * to completion when the solver decides so at one of the schedule points of whichever flow is currently executing:
 *   pthread_create itself, aws_mutex_lock (before acquisition), aws_mutex_unlock (after release), the condition-variable wait,
 *   pthread_join (forced if the target has not finished: a blocking join).
 * Nested runs are allowed (a thread's own schedule points can start further threads), so every interleaving in which a thread's
 * execution fits into a gap of another (stack-like nesting) is covered.  Not covered: two threads both suspended mid-way.
 * The per-thread variable tl_wrapper (static AWS_THREAD_LOCAL in thread.c, a plain global for CBMC) is saved/restored around
 * nested runs, which is why thread.c is part of this translation unit.  Program shape (PROG) is fixed per job. */
#include "verif.h"
#include <pthread.h>
#include <thread.c>        /* source/posix/thread.c */
#include <thread_shared.c> /* source/thread_shared.c */
#include <aws/common/error.h>
#ifndef PROG
#    define PROG "MM"
#endif
#ifndef NEXIT
#    define NEXIT 2
#endif
#define MAXT (sizeof(PROG) - 1) /* threads in this program */
#define MAXT_POOL (sizeof(PROG) - 1)
/* ---------------- allocator: typed pools ----------------
 * CBMC gives an object allocated through a generic allocator wrapper the type "array of bytes"; every access to the intrusive list
 * node / pointers inside such an object is a byte-extract and symbolic execution of the join list did not terminate (measured).
 * Here the two object kinds the thread code allocates come from statically TYPED pools (zeroed like calloc); release marks the slot
 * free (double release asserted) so that "nothing leaked" is a ghost count instead of CBMC's leak check. */
/* every wrapper / at-exit record is its OWN top-level object: a pointer into an ARRAY of structs has a symbolic offset for CBMC and
 * reads through it are field-insensitive (measured in C18: 37 M clauses vs 2 M for the same program) */
static struct thread_wrapper w0, w1, w2, w3;
static struct thread_wrapper *const wpool[4] = {&w0, &w1, &w2, &w3};
static struct thread_atexit_callback c0, c1, c2, c3, c4, c5, c6, c7, c8, c9, c10, c11;
static struct thread_atexit_callback *const cpool[12] = {&c0, &c1, &c2, &c3, &c4, &c5, &c6, &c7, &c8, &c9, &c10, &c11};
static bool wlive[MAXT_POOL], clive[MAXT_POOL * 3];
static size_t wnext, cnext;
static struct aws_allocator s_alloc;
struct aws_allocator *verif_allocator(void) { return &s_alloc; }
void *aws_mem_calloc(struct aws_allocator *a, size_t num, size_t size) {
    ASSERT(a == &s_alloc && num == 1, "allocator: calloc(1, sizeof object)");
    if (size == sizeof(struct thread_wrapper)) { ASSERT(wnext < MAXT_POOL && wnext < 4, "harness: wrapper pool large enough"); *wpool[wnext] = (struct thread_wrapper){0}; wlive[wnext] = true; return wpool[wnext++]; }
    ASSERT(size == sizeof(struct thread_atexit_callback), "allocator: only wrappers and at-exit records are allocated by the thread code");
    ASSERT(cnext < MAXT_POOL * 3 && cnext < 12, "harness: callback pool large enough");
    *cpool[cnext] = (struct thread_atexit_callback){0}; clive[cnext] = true;
    return cpool[cnext++];
}
void aws_mem_release(struct aws_allocator *a, void *p) {
    ASSERT(a == &s_alloc, "allocator: release through the same allocator");
    if (!p) return;
    for (size_t i = 0; i < MAXT_POOL; ++i) if (p == wpool[i]) { ASSERT(wlive[i], "wrapper released exactly once"); wlive[i] = false; return; }
    for (size_t i = 0; i < MAXT_POOL * 3; ++i) if (p == cpool[i]) { ASSERT(clive[i], "at-exit record released exactly once"); clive[i] = false; return; }
    ASSERT(0, "release of a pointer that was not allocated");
}
/* thread names (NAMES=1): one statically typed aws_string-shaped object per launch attempt; destroy is asserted exactly once */
#ifndef NAMES
#    define NAMES 0
#endif
#ifndef FAILC
#    define FAILC 0 /* 1: pthread_create may fail (solver's choice) */
#endif
struct name_obj { struct aws_allocator *allocator; size_t len; uint8_t bytes[4]; };
static struct name_obj nm0, nm1, nm2, nm3, nm4, nm5, nm6, nm7;
static struct name_obj *const nmpool[8] = {&nm0, &nm1, &nm2, &nm3, &nm4, &nm5, &nm6, &nm7};
static bool nlive[8];
static size_t nnext;
struct aws_string *aws_string_new_from_cursor(struct aws_allocator *a, const struct aws_byte_cursor *c) {
    ASSERT(a == &s_alloc && c->len > 0 && c->len < 4, "thread name copy");
    ASSERT(nnext < 8, "harness: name pool large enough");
    nmpool[nnext]->allocator = a; nmpool[nnext]->len = c->len; nmpool[nnext]->bytes[0] = c->ptr[0]; nmpool[nnext]->bytes[c->len] = 0;
    nlive[nnext] = true;
    return (struct aws_string *)nmpool[nnext++];
}
void aws_string_destroy(struct aws_string *s) {
    if (!s) return;
    for (size_t i = 0; i < 8; ++i) if ((void *)s == (void *)nmpool[i]) { ASSERT(nlive[i], "thread name copy released exactly once"); nlive[i] = false; return; }
    ASSERT(0, "aws_string_destroy of something that is not a thread name");
}
/* ---------------- pending-thread table + pthread stubs ---------------- */
static struct { void *(*fn)(void *); void *arg; bool started, finished; unsigned joined; } pend[MAXT];
static size_t npend;
static size_t cur_tid; /* 0 = main flow, k = pend[k-1] */
static unsigned failed_creates;
static bool create_failed[MAXT]; /* per user thread: its pthread_create was refused (a nested launch may fail while an outer one succeeds) */
static size_t pend_of_user[MAXT]; /* user thread k -> 1 + index in pend[] (0 = never created) */
static unsigned depth;
static void run_thread(size_t i) {
    ASSERT(!pend[i].started, "a thread function is started at most once");
    pend[i].started = true;
    size_t saved_tid = cur_tid;
    struct thread_wrapper *saved_tl = tl_wrapper;
    cur_tid = i + 1;
    tl_wrapper = NULL;
    depth++;
    pend[i].fn(pend[i].arg);
    depth--;
    tl_wrapper = saved_tl;
    cur_tid = saved_tid;
    pend[i].finished = true;
}
static bool mutex_held;
static void schedule_point(void) { /* the solver may let not-yet-started threads run to completion here */
#ifndef MAXDEPTH
#    define MAXDEPTH 2
#endif
    if (mutex_held || depth >= MAXDEPTH) return; /* nesting depth of thread runs bounded by MAXDEPTH (per job) */
    for (size_t i = 0; i < MAXT; ++i)
        if (i < npend && !pend[i].started && nd_bool()) run_thread(i);
}
int pthread_create(pthread_t *t, const pthread_attr_t *a, void *(*fn)(void *), void *arg) {
    (void)a;
    if (FAILC && nd_bool()) { failed_creates++; create_failed[(size_t)(uintptr_t)((struct thread_wrapper *)arg)->arg - 1] = true; return EAGAIN; } /* resource exhaustion: nothing is created */
    ASSERT(npend < MAXT, "harness: thread table large enough");
    pend[npend].fn = fn; pend[npend].arg = arg; pend[npend].started = pend[npend].finished = false; pend[npend].joined = 0;
    npend++;
    *t = (pthread_t)npend;
    pend_of_user[(size_t)(uintptr_t)((struct thread_wrapper *)arg)->arg - 1] = npend;
    schedule_point();
    return 0;
}
int pthread_join(pthread_t t, void **r) {
    (void)r;
    size_t i = (size_t)t - 1;
    ASSERT(i < npend, "pthread_join: joins a thread that was created");
    ASSERT((size_t)t != cur_tid, "pthread_join: a thread never joins itself (deadlock)");
    ASSERT(pend[i].joined == 0, "pthread_join: every thread is joined at most once");
    ASSERT(!mutex_held, "pthread_join: never called with the management lock held");
    if (!pend[i].started) {
        /* a blocking join from the main flow: the target runs (and finishes) before join returns.  A THREAD only ever joins through the
         * lazy-join list, whose documented guarantee is that its members have already run to completion; a not-yet-started target
         * there is reported instead of being run (this also keeps run_thread out of every nested join site: 795k -> 20k symex steps) */
        if (depth == 0) run_thread(i);
        else ASSERT(0, "lazy join: a thread only joins threads whose function has already completed");
    }
    ASSERT(pend[i].finished, "pthread_join: returns only after the target has finished (no join on a thread that is still on the call stack => deadlock)");
    pend[i].joined++;
    return 0;
}
pthread_t pthread_self(void) { return (pthread_t)cur_tid; }
int pthread_equal(pthread_t a, pthread_t b) { return a == b; }
int pthread_attr_init(pthread_attr_t *a) { (void)a; return 0; }
int pthread_attr_destroy(pthread_attr_t *a) { (void)a; return 0; }
int pthread_attr_setstacksize(pthread_attr_t *a, size_t s) { (void)a; (void)s; return 0; }
int pthread_attr_getstacksize(const pthread_attr_t *a, size_t *s) { (void)a; *s = 8u << 20; return 0; }
int pthread_attr_setaffinity_np(pthread_attr_t *a, size_t n, const cpu_set_t *c) { (void)a; (void)n; (void)c; return 0; }
int pthread_setname_np(pthread_t t, const char *n) { (void)t; (void)n; return 0; }
long (*g_set_mempolicy_ptr)(int, const unsigned long *, unsigned long) = NULL;
/* ---------------- mutex / condition variable / clock stubs ---------------- */
#ifdef SCHED_AT_LOCKS
#    define LOCK_SCHEDULE_POINT() schedule_point()
#else
#    define LOCK_SCHEDULE_POINT() /* quick tier: threads start either right at pthread_create or while somebody waits/joins */
#endif
int aws_mutex_lock(struct aws_mutex *m) { (void)m; LOCK_SCHEDULE_POINT(); ASSERT(!mutex_held, "management lock: not acquired twice"); mutex_held = true; return 0; }
int aws_mutex_unlock(struct aws_mutex *m) { (void)m; ASSERT(mutex_held, "management lock: released only when held"); mutex_held = false; LOCK_SCHEDULE_POINT(); return 0; }
int aws_condition_variable_notify_one(struct aws_condition_variable *c) { (void)c; return 0; }
int aws_condition_variable_wait_pred(struct aws_condition_variable *c, struct aws_mutex *m, aws_condition_predicate_fn *pred, void *ctx) {
    (void)c; (void)m;
    ASSERT(mutex_held, "condition wait: called with the lock held");
    mutex_held = false;
    size_t started_before = 0, started_after = 0;
    for (size_t i = 0; i < MAXT; ++i) if (i < npend && pend[i].started) started_before++;
    schedule_point(); /* others run while we wait */
    for (size_t i = 0; i < MAXT; ++i) if (i < npend && pend[i].started) started_after++;
    /* fairness: join-all spin-waits while one managed thread is still running (documented); a scheduler that never runs that thread
     * would spin forever.  At most one wait may pass without any thread making progress; on the next one the remaining threads run. */
    static unsigned idle_waits;
    if (started_after == started_before && started_after < npend) {
        if (idle_waits >= 1) { for (size_t i = 0; i < MAXT; ++i) if (i < npend && !pend[i].started) run_thread(i); }
        else idle_waits++;
    } else idle_waits = 0;
    if (!pred(ctx)) { /* still blocked: only legal if someone else can still make progress (otherwise: deadlock / lost wake-up) */
        bool runnable = false;
        for (size_t i = 0; i < MAXT; ++i) if (i < npend && !pend[i].started) runnable = true;
        ASSERT(runnable, "join-all never waits for something that can no longer happen (no deadlock at this granularity)");
        for (size_t i = 0; i < MAXT; ++i) if (i < npend && !pend[i].started && !pred(ctx)) run_thread(i); /* the wait ends when the remaining threads have run */
        ASSERT(pred(ctx), "join-all: once every thread has run, the wait predicate holds");
    }
    mutex_held = true;
    return 0;
}
int aws_condition_variable_wait_for_pred(struct aws_condition_variable *c, struct aws_mutex *m, int64_t t, aws_condition_predicate_fn *pred, void *ctx) { (void)t; return aws_condition_variable_wait_pred(c, m, pred, ctx); }
int aws_sys_clock_get_ticks(uint64_t *t) { static uint64_t now; now += nd_u8(); *t = now; return 0; }
/* ---------------- user functions ---------------- */
static unsigned ran[MAXT];           /* how often user function k ran */
static size_t ran_on[MAXT];          /* on which tid */
static unsigned exit_seq[MAXT][NEXIT + 1], exit_n[MAXT];
static size_t exit_on[MAXT];
static bool fn_done_before_exit[MAXT];
static struct aws_thread th[MAXT];
static struct aws_thread_options managed_opt;
static void at_exit_cb(void *ud) {
    size_t k = (size_t)(uintptr_t)ud / 8, j = (size_t)(uintptr_t)ud % 8;
    ASSERT(ran[k] == 1, "at-exit callbacks run after the thread's function has completed");
    if (exit_n[k] < NEXIT + 1) exit_seq[k][exit_n[k]] = (unsigned)j;
    exit_n[k]++;
    exit_on[k] = cur_tid;
}
static void user_fn(void *arg);
static bool launched[MAXT];
static struct aws_thread_options joinable_opt;
static void launch(size_t k, bool managed) {
    aws_thread_init(&th[k], verif_allocator());
    size_t count_before = aws_thread_get_managed_thread_count();
    int rc = aws_thread_launch(&th[k], user_fn, (void *)(uintptr_t)(k + 1), managed ? &managed_opt : (NAMES ? &joinable_opt : NULL));
    if (create_failed[k]) { /* pthread_create refused: the launch fails and leaves nothing behind */
        ASSERT(rc == AWS_OP_ERR && aws_last_error() == AWS_ERROR_THREAD_INSUFFICIENT_RESOURCE, "launch reports the pthread_create failure");
        if (cur_tid == 0 && npend == 0) ASSERT(aws_thread_get_managed_thread_count() == count_before, "a failed launch leaves the managed-thread count unchanged");
        ASSERT(pend_of_user[k] == 0 && ran[k] == 0, "a failed launch never runs the function");
        launched[k] = false;
        return;
    }
    ASSERT(rc == AWS_OP_SUCCESS, "launch succeeds");
    launched[k] = true;
}
static void user_fn(void *arg) {
    size_t k = (size_t)(uintptr_t)arg - 1;
    ASSERT(k < MAXT, "thread function receives the argument given at launch");
    ran[k]++;
    ran_on[k] = cur_tid;
    for (size_t j = 0; j < NEXIT; ++j) ASSERT(aws_thread_current_at_exit(at_exit_cb, (void *)(uintptr_t)(k * 8 + j)) == AWS_OP_SUCCESS, "at_exit registration succeeds on a launched thread");
    static const char prog[] = PROG;
    if (prog[k] == 'L') launch(k + 1, true); /* this managed thread launches a further managed thread */
}
void h_threads(void) {
    aws_thread_initialize_thread_management();
    managed_opt = *aws_default_thread_options();
    managed_opt.join_strategy = AWS_TJS_MANAGED;
    joinable_opt = *aws_default_thread_options();
    if (NAMES) { managed_opt.name = (struct aws_byte_cursor){.len = 2, .ptr = (uint8_t *)"tm"}; joinable_opt.name = (struct aws_byte_cursor){.len = 2, .ptr = (uint8_t *)"tj"}; }
    static const char prog[] = PROG; /* per thread: 'M' managed, 'J' joinable (manual join), 'L' managed that launches the next one (which is 'm': launched by its parent) */
    size_t n = sizeof(PROG) - 1;
    for (size_t k = 0; k < MAXT; ++k) if (k < n && prog[k] != 'm') launch(k, prog[k] != 'J');
    for (size_t k = 0; k < MAXT; ++k)
        if (k < n && prog[k] == 'J' && launched[k]) {
            ASSERT(aws_thread_join(&th[k]) == AWS_OP_SUCCESS, "join of a joinable thread succeeds");
            ASSERT(ran[k] == 1 && exit_n[k] == NEXIT, "join returns only after the function and all its at-exit callbacks have completed");
            aws_thread_clean_up(&th[k]);
        }
    ASSERT(aws_thread_join_all_managed() == AWS_OP_SUCCESS, "join_all_managed succeeds");
    ASSERT(aws_thread_get_managed_thread_count() == 0, "after join-all the outstanding managed-thread count is zero");
    for (size_t k = 0; k < MAXT; ++k)
        if (k < n && !launched[k]) ASSERT(ran[k] == 0 && exit_n[k] == 0, "a thread whose launch failed never runs");
        else if (k < n) {
            ASSERT(ran[k] == 1, "every launched thread ran its function exactly once");
            ASSERT(ran_on[k] == k + 1 || ran_on[k] != 0, "the function ran on a launched thread, not on the main flow");
            ASSERT(exit_n[k] == NEXIT && exit_on[k] == ran_on[k], "every at-exit callback ran once, on that thread");
            for (size_t j = 0; j < NEXIT; ++j) ASSERT(exit_seq[k][j] == NEXIT - 1 - j, "at-exit callbacks run in reverse order of registration");
        }
    for (size_t i = 0; i < MAXT; ++i) if (i < npend) ASSERT(pend[i].finished && pend[i].joined == 1, "every thread (manual or managed) has been joined exactly once when join-all returns");
    size_t n_launched = 0;
    for (size_t k = 0; k < MAXT; ++k) if (k < n && launched[k]) n_launched++;
    ASSERT(npend == n_launched, "exactly the launched threads were created");
    for (size_t i = 0; i < 8; ++i) ASSERT(!nlive[i], "every thread-name copy is released (also when the launch failed)");
    if (FAILC && n_launched < n && n_launched > 0) WITNESS("one launch failed, another succeeded");
    if (FAILC && n_launched == 0) WITNESS("every launch failed");
    ASSERT(aws_linked_list_empty(&s_pending_join_managed_threads), "no wrapper is left on the pending-join list");
    for (size_t i = 0; i < MAXT_POOL; ++i) ASSERT(!wlive[i], "per-thread bookkeeping (wrapper) is released for every thread");
    for (size_t i = 0; i < MAXT_POOL * 3; ++i) ASSERT(!clive[i], "every at-exit record is released");
    WITNESS("threads");
}
