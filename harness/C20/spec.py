# C20 — threads (sequentialised at synchronisation calls; schedule chosen by the solver)
SRC = ["source/common.c", "source/error.c", "source/math.c"]
STUBS = ["base.c", "memcpy_loop.c", "memchr.c"]
FPR = {"run_thread.function_pointer_call.1": ["thread_fn"], "thread_fn.function_pointer_call.6": ["user_fn"], "thread_fn.function_pointer_call.7": ["at_exit_cb"],
       "aws_condition_variable_wait_pred.function_pointer_call.1": ["s_one_or_fewer_managed_threads_unjoined"],
       "aws_condition_variable_wait_pred.function_pointer_call.2": ["s_one_or_fewer_managed_threads_unjoined"],
       "aws_condition_variable_wait_pred.function_pointer_call.3": ["s_one_or_fewer_managed_threads_unjoined"]}


def spec(tier):
    units, jobs = {}, []
    # (program, thread names, pthread_create may fail)
    progs = [("J", 0, 0), ("JJ", 0, 0), ("M", 0, 0), ("MJ", 0, 0), ("Lm", 0, 0), ("JJ", 1, 1), ("M", 1, 1)]
    if tier != "quick":
        progs += [("MM", 0, 0), ("MJ", 1, 1), ("JJJ", 0, 0), ("MM", 1, 1), ("Lm", 1, 1), ("JJJ", 1, 1)]  # three managed threads (MMM, LmJ, MLm) were not attempted: 5-6 GB per two-thread program already
    for p, names, failc in progs:
        u = "t_" + p + ("_nf" if names else "")
        managed = ("M" in p or "L" in p)
        units[u] = dict(harness=["C20/h_threads.c"], sources=SRC, stubs=STUBS, fp_restrict=FPR,
                        defines={"PROG": '"%s"' % p, "NEXIT": 2, "MAXDEPTH": 1 if (managed or names) else 2, "NAMES": names, "FAILC": failc},
                        pre_include=["stubs/plain_atomics.h"], native=False, extra_inc=[], cflags=["-I/repo/source/posix"])
        t = len(p)
        # the global bound also bounds RECURSION (run_thread -> thread_fn -> ... -> pthread_join -> run_thread and the cpu-pinning retry in
        # aws_thread_launch); every loop gets its own bound
        jobs.append(dict(unit=u, entry="h_threads", unwind=t + 1,
                         unwindset={"aws_thread_join_and_free_wrapper_list": 3, "thread_fn": 4, "aws_thread_join_all_managed": t + 3, "schedule_point": t + 2,
                                    "h_threads": max(3 * t + 3, 9), "aws_condition_variable_wait_pred": t + 2, "aws_mem_release": 3 * t + 2, "user_fn": 4, "at_exit_cb": 4,
                                    "aws_string_destroy": 9}, timeout=600 if tier == "quick" else 3000,
                         bounds="program %s (M managed, J joinable, L managed thread that launches the next managed thread m); 2 at-exit registrations per thread; schedule symbolic%s" %
                                (p, "; threads are named and every pthread_create may fail (solver's choice)" if names else ""),
                         what="each function runs once with its argument; at-exit callbacks once, on that thread, reverse order, before join returns; join-all joins every managed thread exactly once, count 0, no deadlock, nothing leaked"
                              + ("; a failed launch reports the error, leaves the count unchanged and releases wrapper and name" if failc else "")))
    meta = dict(functions_encoded=["source/posix/thread.c (launch, thread_fn, join, at_exit, join_and_free_wrapper_list)", "source/thread_shared.c (all)"],
                bounds="up to %d threads" % max(len(p[0]) for p in progs),
                stubs=["pthread_create/join/self/attr_*: sequentialising scheduler in the harness (records threads, runs the real thread_fn at schedule points)",
                       "aws_mutex_*, aws_condition_variable_* (wait may return when the predicate holds; asserts progress otherwise), aws_sys_clock_get_ticks", "base.c (no logger)", "allocator: typed static pools for thread_wrapper / thread_atexit_callback in the harness (release asserted exactly once, ghost leak check)"],
                out=["interleavings that need two threads suspended mid-way at the same time (not stack-like), e.g. two threads both between unlock and join inside aws_thread_pending_join_add",
                     "pthread_attr_* failures, cpu affinity (and its retry path), the timed join-all path", "a managed thread suspended BETWEEN pthread_create and the code after it while the main flow continues (needs two flows suspended mid-way)"],
                assumptions=["state shared between threads is accessed only under the management mutex or by the owning thread (the mutex stub asserts lock discipline)"])
    return dict(units=units, jobs=jobs, meta=meta, max_parallel=6 if tier == "quick" else 4)
