# C20 — threads (sequentialised at synchronisation calls; schedule chosen by the solver)
SRC = ["source/common.c", "source/error.c", "source/math.c"]
STUBS = ["base.c", "memcpy_loop.c", "memchr.c"]
FPR = {"run_thread.function_pointer_call.1": ["thread_fn"], "thread_fn.function_pointer_call.6": ["user_fn"], "thread_fn.function_pointer_call.7": ["at_exit_cb"],
       "aws_condition_variable_wait_pred.function_pointer_call.1": ["s_one_or_fewer_managed_threads_unjoined"],
       "aws_condition_variable_wait_pred.function_pointer_call.2": ["s_one_or_fewer_managed_threads_unjoined"],
       "aws_condition_variable_wait_pred.function_pointer_call.3": ["s_one_or_fewer_managed_threads_unjoined"]}


def spec(tier):
    units, jobs = {}, []
    # Programs containing a MANAGED thread did not fit: "M" alone exhausts 12 GB in the solver after 4 min of symbolic execution (the
    # lazy-join list + recursion through pthread_join); MM, MJ, Lm, ... time out.  Only joinable-thread programs are run; the managed-thread
    # clauses of C20 are NOT decided.
    progs = ["J", "JJ"] if tier == "quick" else ["J", "JJ", "JJJ"]
    for p in progs:
        u = "t_" + p
        units[u] = dict(harness=["C20/h_threads.c"], sources=SRC, stubs=STUBS, defines={"PROG": '"%s"' % p, "NEXIT": 2}, fp_restrict=FPR,
                        pre_include=["stubs/plain_atomics.h"], native=False, extra_inc=[], cflags=["-I/repo/source/posix"])
        t = len(p)
        # the global bound also bounds RECURSION (run_thread -> thread_fn -> ... -> pthread_join -> run_thread): nesting depth <= #threads;
        # every loop gets its own bound
        jobs.append(dict(unit=u, entry="h_threads", unwind=t + 1,
                         unwindset={"aws_thread_join_and_free_wrapper_list": 3, "thread_fn": 4, "aws_thread_join_all_managed": t + 3, "schedule_point": t + 2,
                                    "h_threads": 3 * t + 3, "aws_condition_variable_wait_pred": t + 2, "aws_mem_release": 3 * t + 2, "user_fn": 4, "at_exit_cb": 4}, timeout=300 if tier == "quick" else 2400,
                         bounds="program %s (M managed, J joinable, L managed thread that launches the next managed thread m); 2 at-exit registrations per thread; schedule symbolic" % p,
                         what="each function runs once with its argument; at-exit callbacks once, on that thread, reverse order, before join returns; join-all joins every managed thread exactly once, count 0, no deadlock, nothing leaked"))
    meta = dict(functions_encoded=["source/posix/thread.c (launch, thread_fn, join, at_exit, join_and_free_wrapper_list)", "source/thread_shared.c (all)"],
                bounds="up to %d threads" % max(len(p) for p in progs),
                stubs=["pthread_create/join/self/attr_*: sequentialising scheduler in the harness (records threads, runs the real thread_fn at schedule points)",
                       "aws_mutex_*, aws_condition_variable_* (wait may return when the predicate holds; asserts progress otherwise), aws_sys_clock_get_ticks", "base.c (no logger)", "allocator: typed static pools for thread_wrapper / thread_atexit_callback in the harness (release asserted exactly once, ghost leak check)"],
                out=["interleavings that need two threads suspended mid-way at the same time (not stack-like), e.g. two threads both between unlock and join inside aws_thread_pending_join_add",
                     "real pthread failure modes (create/attr failures), cpu affinity / naming paths, the timed join-all path"],
                assumptions=["state shared between threads is accessed only under the management mutex or by the owning thread (the mutex stub asserts lock discipline)"])
    return dict(units=units, jobs=jobs, meta=meta)
