# C18 — linked hash table and caches
SRC = ["source/linked_hash_table.c", "source/cache.c", "source/lru_cache.c", "source/fifo_cache.c", "source/lifo_cache.c", "source/hash_table.c",
       "source/common.c", "source/error.c", "source/math.c", "source/byte_buf.c", "source/string.c"]
STUBS = ["base.c", "alloc_direct.c", "mem0.c", "memchr.c"]


# CBMC resolves an indirect call to EVERY function of a compatible type (9 candidates for void(void*), among them s_element_destroy itself,
# which makes the destructor chain look recursive).  The call sites below are restricted to the targets that the harness actually installs;
# goto-instrument turns any other target into a failing assertion, so the restriction is checked, not assumed.
FPR = {
    "aws_hash_table_put.function_pointer_call.1": ["dk"], "aws_hash_table_put.function_pointer_call.2": ["s_element_destroy"],
    "aws_hash_table_remove.function_pointer_call.1": ["dk"], "aws_hash_table_remove.function_pointer_call.2": ["s_element_destroy"],
    "aws_hash_iter_delete.function_pointer_call.1": ["dk"], "aws_hash_iter_delete.function_pointer_call.2": ["s_element_destroy"],
    "aws_hash_table_clear.function_pointer_call.1": ["dk"], "aws_hash_table_clear.function_pointer_call.2": ["s_element_destroy"],
    "s_element_destroy.function_pointer_call.1": ["dv"], "aws_linked_hash_table_put.function_pointer_call.1": ["dk"],
    "s_hash_for.function_pointer_call.1": ["hash_fn"], "s_safe_eq_check.function_pointer_call.1": ["eq_fn"],
}


def spec(tier):
    units, jobs = {}, []
    for kind, maxi, ops in [(3, 2, "PPPF"), (1, 2, "PPP"), (0, 2, "PPR")]:
        u = "c%d_%d_%s" % (kind, maxi, ops)
        units[u] = dict(harness=["C18/h_cache.c"], sources=SRC, stubs=STUBS, defines={"KIND": kind, "MAXI": maxi, "OPS": '"%s"' % ops}, fp_restrict=FPR)
        jobs.append(dict(unit=u, entry="h_cache_program", unwind=6, unwindset={"chk_state": 18, "r_find": 9, "r_erase": 9, "h_cache_program": 9}, timeout=300, bounds="probe", what="probe"))
    return dict(units=units, jobs=jobs, meta={})
