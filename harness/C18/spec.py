# C18 — linked hash table and caches
SRC = ["source/linked_hash_table.c", "source/cache.c", "source/lru_cache.c", "source/fifo_cache.c", "source/lifo_cache.c", "source/hash_table.c",
       "source/common.c", "source/error.c", "source/math.c", "source/byte_buf.c", "source/string.c"]
STUBS = ["base.c", "alloc_direct.c", "mem0.c", "memchr.c"]


# CBMC resolves an indirect call to EVERY function of a compatible type (9 candidates for void(void*), among them s_element_destroy itself,
# which makes the destructor chain look recursive).  The call sites below are restricted to the targets that the harness actually installs;
# goto-instrument turns any other target into a failing assertion, so the restriction is checked, not assumed.
FPR = {
    "aws_hash_table_put.function_pointer_call.1": ["dk"], "aws_hash_table_put.function_pointer_call.2": ["s_element_destroy"],
    "aws_hash_table_remove.function_pointer_call.1": ["dk"], "aws_hash_table_remove.function_pointer_call.2": ["s_element_destroy"],
    "aws_hash_iter_delete.function_pointer_call.1": ["dk"], "aws_hash_iter_delete.function_pointer_call.2": ["s_element_destroy"],
    "aws_hash_table_clear.function_pointer_call.1": ["dk"], "aws_hash_table_clear.function_pointer_call.2": ["s_element_destroy"],
    "s_element_destroy.function_pointer_call.1": ["dv"], "aws_linked_hash_table_put.function_pointer_call.1": ["dk"],
    "s_hash_for.function_pointer_call.1": ["hash_fn"], "s_safe_eq_check.function_pointer_call.1": ["eq_fn"],
}


def spec(tier):
    units, jobs = {}, []
    VT = {1: ("s_fifo_cache_put", "aws_cache_base_default_find"), 2: ("s_lifo_cache_put", "aws_cache_base_default_find"), 3: ("s_lru_cache_put", "s_lru_cache_find")}
    for kind, maxi, ops, hs in [(0, 2, "PP", "000"), (0, 2, "PP", "012"), (3, 2, "PPP", "000"), (3, 2, "PPPF", "013"), (1, 2, "PPP", "011")]:
        fpr = dict(FPR)
        if kind:
            fpr.update({"aws_cache_put.function_pointer_call.1": [VT[kind][0]], "aws_cache_find.function_pointer_call.1": [VT[kind][1]],
                        "aws_cache_remove.function_pointer_call.1": ["aws_cache_base_default_remove"], "aws_cache_clear.function_pointer_call.1": ["aws_cache_base_default_clear"],
                        "aws_cache_get_element_count.function_pointer_call.1": ["aws_cache_base_default_get_element_count"],
                        "aws_cache_destroy.function_pointer_call.1": ["aws_cache_base_default_destroy"],
                        "aws_lru_cache_use_lru_element.function_pointer_call.1": ["s_lru_cache_use_lru_element"],
                        "aws_lru_cache_get_mru_element.function_pointer_call.1": ["s_lru_cache_get_mru_element"]})
        u = "c%d_%d_%s_%s" % (kind, maxi, ops, hs)
        units[u] = dict(harness=["C18/h_cache.c"], sources=SRC, stubs=STUBS, defines={"KIND": kind, "MAXI": maxi, "OPS": '"%s"' % ops, "HSET": '"%s"' % hs, "NP": ops.count("P"), "KEYS": '"0312"', "VERIF_ALLOC_SIZES": "128,176,272,464"}, fp_restrict=fpr)
        jobs.append(dict(unit=u, entry="h_cache_program", unwind=6, unwindset={"chk_state": 18, "r_find": 6, "r_erase": 6, "h_cache_program": 9, "verif_alloc_split": 6}, timeout=300, bounds="probe", what="probe"))
    return dict(units=units, jobs=jobs, meta={})
