# C18 — linked hash table and FIFO / LIFO / LRU caches over the hash-table CONTRACT MODEL (stubs/hash_model.c; the real table is C02)
SRC = ["source/linked_hash_table.c", "source/cache.c", "source/fifo_cache.c", "source/lifo_cache.c", "source/common.c", "source/error.c"]
# source/lru_cache.c is #included by the harness (its private impl-vtable type is needed for a typed object)
STUBS = ["base.c", "alloc_direct.c", "hash_model.c"]

# CBMC resolves an indirect call to EVERY function of a compatible type.  The call sites below are restricted to the targets that the
# harness / the constructors actually install; goto-instrument turns any other target into a failing assertion, so the restriction is
# checked, not assumed.
FPR = {
    "hm_hash.function_pointer_call.1": ["hash_fn"], "hm_eq.function_pointer_call.1": ["eq_fn"],
    "hm_dk.function_pointer_call.1": ["dk"], "hm_dv.function_pointer_call.1": ["s_element_destroy"],
    # every indirect call in the list code itself may reach either user destructor (same C type): which one is called where is
    # decided by the destructor-count assertions of the harness, not by the call-site numbering
    "s_element_destroy.function_pointer_call.*": ["dv", "dk"], "aws_linked_hash_table_put.function_pointer_call.*": ["dk", "dv"],
}
VT = {1: ("s_fifo_cache_put", "aws_cache_base_default_find"), 2: ("s_lifo_cache_put", "aws_cache_base_default_find"), 3: ("s_lru_cache_put", "s_lru_cache_find")}
NAMES = {0: "linked hash table", 1: "FIFO cache", 2: "LIFO cache", 3: "LRU cache"}


def spec(tier):
    units, jobs = {}, []
    progs = []
    # (kind, capacity, operation script); '*' = the operation is the solver's choice (P F R C, and U M for the LRU cache);
    # every operation's key is symbolic (4 key objects in 3 equality classes)
    L = 3 if tier == "quick" else 4
    for k in (0, 1, 2, 3):
        for cap in (1, 2, 3):
            progs.append((k, cap, "*" * L))
    # longer programs: fixed puts (keys symbolic) around free operations
    mixed = ["PPP*F"] if tier == "quick" else ["PP*PP", "PPP*F", "P*P*P", "PPPP*F"]
    for k in (0, 1, 2, 3):
        for ops in mixed:
            progs.append((k, 2, ops))
    for kind, maxi, ops in progs:
        fpr = dict(FPR)
        if kind:
            fpr.update({"aws_cache_put.function_pointer_call.1": [VT[kind][0]], "aws_cache_find.function_pointer_call.1": [VT[kind][1]],
                        "aws_cache_remove.function_pointer_call.1": ["aws_cache_base_default_remove"], "aws_cache_clear.function_pointer_call.1": ["aws_cache_base_default_clear"],
                        "aws_cache_get_element_count.function_pointer_call.1": ["aws_cache_base_default_get_element_count"],
                        "aws_cache_destroy.function_pointer_call.1": ["aws_cache_base_default_destroy"],
                        "aws_lru_cache_use_lru_element.function_pointer_call.1": ["s_lru_cache_use_lru_element"],
                        "aws_lru_cache_get_mru_element.function_pointer_call.1": ["s_lru_cache_get_mru_element"]})
        u = "c%d_%d_%s" % (kind, maxi, ops)
        np_ = ops.count("P") + ops.count("*")
        units[u] = dict(harness=["C18/h_cache.c"], sources=SRC, stubs=STUBS, fp_restrict=fpr, native=False,
                        defines={"KIND": kind, "MAXI": maxi, "OPS": '"%s"' % ops, "NP": np_, "HM_CAP": np_ + 1, "VERIF_TYPED_CALLOC": 1, "VERIF_TYPED_ACQUIRE_MANY": 1})
        jobs.append(dict(unit=u, entry="h_cache_program", unwind=max(len(ops), np_ + 1, 4) + 2, unwindset={"chk_state": 18, "h_cache_program": 18}, timeout=600 if tier == "quick" else 3000,
                         bounds="%s, capacity %d, script %s (P put, F find, R remove, C clear, U use-lru, M get-mru, * = any of them); key of every operation symbolic over 4 key objects in 3 "
                                "equality classes (two equal-but-distinct pointers), hash codes symbolic 64-bit per class" % (NAMES[kind], maxi, ops),
                         what="after every operation the real iteration list, count, find results and destructor counts equal an ordered reference map with the stated policy"))
    meta = dict(
        functions_encoded=["all of source/linked_hash_table.c", "all of source/cache.c", "all of source/fifo_cache.c, lifo_cache.c, lru_cache.c", "include/aws/common/linked_list.inl"],
        bounds="every program of %d operations (operation and key of each step chosen by the solver), capacities 1..3; programs of 5-6 operations with 1-2 free operations "
               "among fixed puts (keys symbolic), capacity 2-3; 4 key objects / 3 equality classes" % L,
        stubs=["hash_model.c: source/hash_table.c replaced by the map its contracts describe (find/create/remove/clear/count; match = equal hash code and s_safe_eq_check); "
               "the real table is decided against the same contracts in C02", "base.c", "alloc_direct.c with typed pools: list nodes and the cache object are statically typed objects, "
               "release is tracked (double release / use of a released node is an assertion); every node / hash element is its own top-level object"],
        out=["behaviour that depends on the real table's slot layout, growth or allocation failure", "element-pointer invalidation by the real table (model elements are stable)",
             "scripts longer than the bound; capacities above the bound (policy code does not depend on the capacity other than through the comparison count > max_items)",
             "max_items == 0 (constructors assert max_items)"],
        assumptions=["hash_fn is a function of the key's equality class (consistent with eq_fn)", "aws_hash_table meets the contract modelled in stubs/hash_model.c (C02)"])
    return dict(units=units, jobs=jobs, meta=meta, max_parallel=12)
