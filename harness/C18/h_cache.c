/* C18 — linked hash table and FIFO / LIFO / LRU caches: scripted programs from the real constructors.
 * Per job: KIND (0 linked hash table, 1 FIFO, 2 LIFO, 3 LRU), MAXI (capacity), OPS (operation letters).
 * Symbolic: which key each operation uses (4 key objects in 3 equality classes: k0 and k3 are equal but
 * distinct pointers), the hash function (a 64-bit value per class), the values.  A reference ordered
 * map in the harness implements the STATED policy; after every operation the real iteration list is
 * compared with it and destructor counts are checked. */
#include "verif.h"
#include <aws/common/cache.h>
#include <aws/common/fifo_cache.h>
#include <aws/common/lifo_cache.h>
#include <aws/common/lru_cache.h>
#include <aws/common/linked_hash_table.h>
#include <aws/common/error.h>
#ifndef KIND
#    define KIND 3
#endif
#ifndef MAXI
#    define MAXI 2
#endif
#ifndef OPS
#    define OPS "PPPF"
#endif
#ifndef NP
#    define NP 4 /* number of put operations in OPS: bounds every walk over the entries */
#endif
#define NK 4
#define NC 3
static uint8_t keyobj[NK];
static uint8_t valobj[16];
static uint64_t H[NC];
static unsigned kd[NK], vd[16];
static size_t cls(size_t k) { return k == 3 ? 0 : k; }
static size_t kidx(const void *k) { return (size_t)((const uint8_t *)k - keyobj); }
static uint64_t hash_fn(const void *k) { return H[cls(kidx(k))]; }
static bool eq_fn(const void *a, const void *b) { return cls(kidx(a)) == cls(kidx(b)); }
static void dk(void *k) { kd[kidx(k)]++; }
static void dv(void *v) { vd[(size_t)((uint8_t *)v - valobj)]++; }
/* reference: entries in policy order (front = next victim for FIFO/LRU; for LIFO the victim is the most recent before the new one) */
static size_t r_key[NP + 1], r_val[NP + 1], r_n;
static unsigned exp_kd[NK], exp_vd[16];
static long r_find(size_t c) { for (size_t i = 0; i < NP; ++i) if (i < r_n && cls(r_key[i]) == c) return (long)i; return -1; }
static void r_erase(size_t i, bool destroy) {
    if (destroy) { exp_kd[r_key[i]]++; exp_vd[r_val[i]]++; }
    for (size_t j = 0; j + 1 < NP + 1; ++j) if (j >= i && j + 1 < r_n) { r_key[j] = r_key[j + 1]; r_val[j] = r_val[j + 1]; }
    r_n--;
}
static void r_put(size_t k, size_t v) {
    long i = r_find(cls(k));
    if (i >= 0) { /* replace: value destroyed; key destroyed only if it is a different pointer; entry moves to the back */
        exp_vd[r_val[i]]++;
        if (r_key[i] != k) exp_kd[r_key[i]]++;
        r_erase((size_t)i, false);
    }
    r_key[r_n] = k; r_val[r_n] = v; r_n++;
    if (KIND != 0 && r_n > MAXI) {
        if (KIND == 2) r_erase(r_n - 2, true); /* LIFO: the most recently inserted before the new one */
        else r_erase(0, true);                  /* FIFO: oldest inserted; LRU: least recently used */
    }
}
static struct aws_linked_hash_table lht;
static struct aws_cache *cache;
static const struct aws_linked_list *the_list(void) { return aws_linked_hash_table_get_iteration_list(KIND == 0 ? &lht : &cache->table); }
static void chk_state(void) {
    const struct aws_linked_list *l = the_list();
    const struct aws_linked_list_node *n = aws_linked_list_begin(l);
    for (size_t i = 0; i < NP; ++i)
        if (i < r_n) {
            ASSERT(n != aws_linked_list_end(l), "order: the table holds every entry of the reference map");
            const struct aws_linked_hash_table_node *e = AWS_CONTAINER_OF(n, struct aws_linked_hash_table_node, node);
            ASSERT(e->key == &keyobj[r_key[i]] && e->value == &valobj[r_val[i]], "order: iteration order / retained entries equal the reference (insertion order, re-insert moves to the back, policy victim evicted)");
            n = aws_linked_list_next(n);
        }
    ASSERT(n == aws_linked_list_end(l), "order: no extra entries");
    size_t cnt = KIND == 0 ? aws_linked_hash_table_get_element_count(&lht) : aws_cache_get_element_count(cache);
    ASSERT(cnt == r_n, "count equals the reference map");
    if (KIND != 0) ASSERT(cnt <= MAXI, "cache never holds more than its configured maximum");
    for (size_t k = 0; k < NK; ++k) ASSERT(kd[k] == exp_kd[k], "key destructor runs exactly once per displaced key, never otherwise");
    for (size_t v = 0; v < 16; ++v) ASSERT(vd[v] == exp_vd[v], "value destructor runs exactly once per displaced value, never otherwise");
}
void h_cache_program(void) {
#ifdef HSET
    { static const char hs[] = HSET; for (size_t c = 0; c < NC; ++c) H[c] = (uint64_t)(hs[c] - '0'); } /* hash values fixed per job (collision pattern enumerated) */
#else
    for (size_t c = 0; c < NC; ++c) H[c] = nd_u64();
#endif
    if (KIND == 0) ASSERT(aws_linked_hash_table_init(&lht, verif_allocator(), hash_fn, eq_fn, dk, dv, MAXI) == AWS_OP_SUCCESS, "init");
    else {
        cache = KIND == 1 ? aws_cache_new_fifo(verif_allocator(), hash_fn, eq_fn, dk, dv, MAXI)
              : KIND == 2 ? aws_cache_new_lifo(verif_allocator(), hash_fn, eq_fn, dk, dv, MAXI) : aws_cache_new_lru(verif_allocator(), hash_fn, eq_fn, dk, dv, MAXI);
        ASSERT(cache != NULL, "cache constructor");
    }
    static const char ops[] = OPS;
    size_t nextv = 0;
    for (size_t s = 0; s < sizeof(OPS) - 1; ++s) {
#ifdef KEYS
        static const char ks[] = KEYS; size_t k = (size_t)(ks[s] - '0');
#else
        size_t k = nd_u8() % NK;
#endif
        size_t c = cls(k);
        char op = ops[s];
        if (op == 'P') {
            size_t v = nextv++;
            int rc = KIND == 0 ? aws_linked_hash_table_put(&lht, &keyobj[k], &valobj[v]) : aws_cache_put(cache, &keyobj[k], &valobj[v]);
            ASSERT(rc == AWS_OP_SUCCESS, "put succeeds");
            r_put(k, v);
            ASSERT(r_find(c) >= 0, "the entry just inserted is retained");
        } else if (op == 'F') {
            void *out = (void *)1;
            int rc = KIND == 0 ? aws_linked_hash_table_find(&lht, &keyobj[k], &out) : aws_cache_find(cache, &keyobj[k], &out);
            long i = r_find(c);
            ASSERT(rc == AWS_OP_SUCCESS && out == (i >= 0 ? (void *)&valobj[r_val[i]] : NULL), "find agrees with the reference map");
            if (KIND == 3 && i >= 0) { size_t kk = r_key[i], vv = r_val[i]; r_erase((size_t)i, false); r_key[r_n] = kk; r_val[r_n] = vv; r_n++; } /* LRU: lookup counts as use */
        } else if (op == 'R') {
            int rc = KIND == 0 ? aws_linked_hash_table_remove(&lht, &keyobj[k]) : aws_cache_remove(cache, &keyobj[k]);
            ASSERT(rc == AWS_OP_SUCCESS, "remove succeeds");
            long i = r_find(c);
            if (i >= 0) r_erase((size_t)i, true);
        } else if (op == 'C') {
            if (KIND == 0) aws_linked_hash_table_clear(&lht); else aws_cache_clear(cache);
            while (r_n) r_erase(r_n - 1, true);
        } else if (op == 'U' && KIND == 3) {
            void *v = aws_lru_cache_use_lru_element(cache);
            ASSERT(v == (r_n ? (void *)&valobj[r_val[0]] : NULL), "use_lru_element returns the least recently used value");
            if (r_n) { size_t kk = r_key[0], vv = r_val[0]; r_erase(0, false); r_key[r_n] = kk; r_val[r_n] = vv; r_n++; }
        } else if (op == 'M' && KIND == 3) {
            void *v = aws_lru_cache_get_mru_element(cache);
            ASSERT(v == (r_n ? (void *)&valobj[r_val[r_n - 1]] : NULL), "get_mru_element returns the most recently used value");
        }
        chk_state();
    }
    if (r_n == MAXI && KIND != 0) WITNESS("cache full at the end");
    WITNESS("program");
}
