/* C18 — linked hash table and FIFO / LIFO / LRU caches: scripted programs from the real constructors.
 * Per job: KIND (0 linked hash table, 1 FIFO, 2 LIFO, 3 LRU), MAXI (capacity), OPS (operation letters).
 * Symbolic: which key each operation uses (4 key objects in 3 equality classes: k0 and k3 are equal but
 * distinct pointers), the hash function (a 64-bit value per class), the values.  A reference ordered
 * map in the harness implements the STATED policy; after every operation the real iteration list is
 * compared with it and destructor counts are checked. */
#include "verif.h"
#include <aws/common/cache.h>
#include <aws/common/fifo_cache.h>
#include <aws/common/lifo_cache.h>
#include <aws/common/lru_cache.h>
#include <aws/common/linked_hash_table.h>
#include <aws/common/error.h>
#include <../source/lru_cache.c> /* for the private struct lru_cache_impl_vtable (typed object for aws_mem_acquire_many) */
#ifndef KIND
#    define KIND 3
#endif
#ifndef MAXI
#    define MAXI 2
#endif
#ifndef OPS
#    define OPS "PPPF"
#endif
#ifndef NP
#    define NP 4 /* upper bound on the number of put operations in OPS ('*' counts as a put): bounds every walk over the entries */
#endif
#define NK 4
#define NC 3
static uint8_t keyobj[NK];
static uint8_t valobj[16];
static uint64_t H[NC];
static unsigned kd[NK], vd[16];
static size_t cls(size_t k) { return k == 3 ? 0 : k; }
static size_t kidx(const void *k) { return (size_t)((const uint8_t *)k - keyobj); }
static uint64_t hash_fn(const void *k) { return H[cls(kidx(k))]; }
static bool eq_fn(const void *a, const void *b) { return cls(kidx(a)) == cls(kidx(b)); }
static void dk(void *k) { kd[kidx(k)]++; }
static void dv(void *v) { vd[(size_t)((uint8_t *)v - valobj)]++; }
/* reference: entries in policy order (front = next victim for FIFO/LRU; for LIFO the victim is the most recent before the new one) */
static size_t r_key[NP + 1], r_val[NP + 1], r_n;
static unsigned exp_kd[NK], exp_vd[16];
static long r_find(size_t c) { for (size_t i = 0; i < NP; ++i) if (i < r_n && cls(r_key[i]) == c) return (long)i; return -1; }
static void r_erase(size_t i, bool destroy) {
    if (destroy) { exp_kd[r_key[i]]++; exp_vd[r_val[i]]++; }
    for (size_t j = 0; j + 1 < NP + 1; ++j) if (j >= i && j + 1 < r_n) { r_key[j] = r_key[j + 1]; r_val[j] = r_val[j + 1]; }
    r_n--;
}
static bool saw_evict, saw_replace_distinct, saw_replace_same;
static void r_put(size_t k, size_t v) {
    long i = r_find(cls(k));
    if (i >= 0) { if (r_key[i] != k) saw_replace_distinct = true; else saw_replace_same = true; }
    if (i >= 0) { /* replace: value destroyed; key destroyed only if it is a different pointer; entry moves to the back */
        exp_vd[r_val[i]]++;
        if (r_key[i] != k) exp_kd[r_key[i]]++;
        r_erase((size_t)i, false);
    }
    r_key[r_n] = k; r_val[r_n] = v; r_n++;
    if (KIND != 0 && r_n > MAXI) {
        saw_evict = true;
        if (KIND == 2) r_erase(r_n - 2, true); /* LIFO: the most recently inserted before the new one */
        else r_erase(0, true);                  /* FIFO: oldest inserted; LRU: least recently used */
    }
}
static struct aws_linked_hash_table lht;
static struct aws_cache *cache;
/* statically typed objects for the library's allocations (objects from a generic allocator are byte arrays for CBMC) */
/* every node is its own top-level object (see stubs/hash_model.c: pointers into an array of structs are field-insensitive for CBMC) */
static struct aws_linked_hash_table_node nd0, nd1, nd2, nd3, nd4, nd5, nd6, nd7;
static struct aws_linked_hash_table_node *const node_pool[8] = {&nd0, &nd1, &nd2, &nd3, &nd4, &nd5, &nd6, &nd7};
static bool node_live[NP + 1];
static size_t node_next;
static struct aws_cache cache_obj;
static bool cache_live;
static struct lru_cache_impl_vtable impl_obj;
void *verif_typed_calloc(size_t size) {
    if (size == sizeof(struct aws_linked_hash_table_node)) {
        ASSERT(node_next < NP + 1, "node pool: one node per put (bound of the harness)");
        ASSUME(node_next < NP + 1);
        static const struct aws_linked_hash_table_node zero;
        *node_pool[node_next] = zero; node_live[node_next] = true;
        return node_pool[node_next++];
    }
    if (size == sizeof(struct aws_cache)) { static const struct aws_cache zero; cache_obj = zero; cache_live = true; return &cache_obj; }
    return NULL;
}
void *verif_typed_acquire(size_t size) { /* contents stay arbitrary: acquire_many does not zero */
#ifndef VERIF_NATIVE
    if (size == sizeof(struct aws_cache)) { struct aws_cache any; cache_obj = any; cache_live = true; return &cache_obj; } /* uninitialised local = arbitrary value */
    if (size == sizeof(struct lru_cache_impl_vtable)) { struct lru_cache_impl_vtable any; impl_obj = any; return &impl_obj; }
#else
    if (size == sizeof(struct aws_cache)) { memset(&cache_obj, 0xA5, sizeof cache_obj); cache_live = true; return &cache_obj; }
    if (size == sizeof(struct lru_cache_impl_vtable)) return &impl_obj;
#endif
    return NULL;
}
bool verif_typed_release(void *p) {
    for (size_t i = 0; i < NP + 1; ++i)
        if (p == node_pool[i]) { ASSERT(node_live[i], "no node is released twice"); node_live[i] = false; return true; }
    if (p == &cache_obj) { ASSERT(cache_live, "cache released once"); cache_live = false; return true; }
    return false;
}
static size_t live_nodes(void) { size_t n = 0; for (size_t i = 0; i < NP + 1; ++i) if (node_live[i]) n++; return n; }
static const struct aws_linked_list *the_list(void) { return aws_linked_hash_table_get_iteration_list(KIND == 0 ? &lht : &cache->table); }
static void chk_state(void) {
    const struct aws_linked_list *l = the_list();
    const struct aws_linked_list_node *n = aws_linked_list_begin(l);
    for (size_t i = 0; i < NP; ++i)
        if (i < r_n) {
            ASSERT(n != aws_linked_list_end(l), "order: the table holds every entry of the reference map");
            const struct aws_linked_hash_table_node *e = AWS_CONTAINER_OF(n, struct aws_linked_hash_table_node, node);
            { bool live = false; for (size_t j = 0; j < NP + 1; ++j) if (e == node_pool[j] && node_live[j]) live = true;
              ASSERT(live, "every listed node is a live allocation (no use after release)"); }
            ASSERT(e->key == &keyobj[r_key[i]] && e->value == &valobj[r_val[i]], "order: iteration order / retained entries equal the reference (insertion order, re-insert moves to the back, policy victim evicted)");
            n = aws_linked_list_next(n);
        }
    ASSERT(n == aws_linked_list_end(l), "order: no extra entries");
    size_t cnt = KIND == 0 ? aws_linked_hash_table_get_element_count(&lht) : aws_cache_get_element_count(cache);
    ASSERT(cnt == r_n, "count equals the reference map");
    ASSERT(live_nodes() == r_n, "exactly one live node per retained entry (displaced nodes are released, none leaks)");
    if (KIND != 0) ASSERT(cnt <= MAXI, "cache never holds more than its configured maximum");
    for (size_t k = 0; k < NK; ++k) ASSERT(kd[k] == exp_kd[k], "key destructor runs exactly once per displaced key, never otherwise");
    for (size_t v = 0; v < 16; ++v) ASSERT(vd[v] == exp_vd[v], "value destructor runs exactly once per displaced value, never otherwise");
}
void h_cache_program(void) {
#ifdef HSET
    { static const char hs[] = HSET; for (size_t c = 0; c < NC; ++c) H[c] = (uint64_t)(hs[c] - '0'); } /* hash values fixed per job (collision pattern enumerated) */
#else
    for (size_t c = 0; c < NC; ++c) H[c] = nd_u64();
#endif
    if (KIND == 0) ASSERT(aws_linked_hash_table_init(&lht, verif_allocator(), hash_fn, eq_fn, dk, dv, MAXI) == AWS_OP_SUCCESS, "init");
    else {
        cache = KIND == 1 ? aws_cache_new_fifo(verif_allocator(), hash_fn, eq_fn, dk, dv, MAXI)
              : KIND == 2 ? aws_cache_new_lifo(verif_allocator(), hash_fn, eq_fn, dk, dv, MAXI) : aws_cache_new_lru(verif_allocator(), hash_fn, eq_fn, dk, dv, MAXI);
        ASSERT(cache != NULL, "cache constructor");
    }
    static const char ops[] = OPS;
    size_t nextv = 0;
    for (size_t s = 0; s < sizeof(OPS) - 1; ++s) {
#ifdef KEYS
        static const char ks[] = KEYS; size_t k = (size_t)(ks[s] - '0');
#else
        size_t k = nd_u8() % NK;
#endif
        size_t c = cls(k);
        char op = ops[s];
        if (op == '*') { /* the operation itself is the solver's choice */
            static const char alphabet[] = "PFRCUM";
            unsigned sel = nd_u8();
            ASSUME(sel < (KIND == 3 ? 6u : 4u));
            op = alphabet[sel];
        }
        if (op == 'P') {
            size_t v = nextv++;
            int rc = KIND == 0 ? aws_linked_hash_table_put(&lht, &keyobj[k], &valobj[v]) : aws_cache_put(cache, &keyobj[k], &valobj[v]);
            ASSERT(rc == AWS_OP_SUCCESS, "put succeeds");
            r_put(k, v);
            ASSERT(r_find(c) >= 0, "the entry just inserted is retained");
        } else if (op == 'F') {
            void *out = (void *)1;
            int rc = KIND == 0 ? aws_linked_hash_table_find(&lht, &keyobj[k], &out) : aws_cache_find(cache, &keyobj[k], &out);
            long i = r_find(c);
            ASSERT(rc == AWS_OP_SUCCESS && out == (i >= 0 ? (void *)&valobj[r_val[i]] : NULL), "find agrees with the reference map");
            if (KIND == 3 && i >= 0) { size_t kk = r_key[i], vv = r_val[i]; r_erase((size_t)i, false); r_key[r_n] = kk; r_val[r_n] = vv; r_n++; } /* LRU: lookup counts as use */
        } else if (op == 'R') {
            int rc = KIND == 0 ? aws_linked_hash_table_remove(&lht, &keyobj[k]) : aws_cache_remove(cache, &keyobj[k]);
            ASSERT(rc == AWS_OP_SUCCESS, "remove succeeds");
            long i = r_find(c);
            if (i >= 0) r_erase((size_t)i, true);
        } else if (op == 'C') {
            if (KIND == 0) aws_linked_hash_table_clear(&lht); else aws_cache_clear(cache);
            while (r_n) r_erase(r_n - 1, true);
        } else if (op == 'U' && KIND == 3) {
            void *v = aws_lru_cache_use_lru_element(cache);
            ASSERT(v == (r_n ? (void *)&valobj[r_val[0]] : NULL), "use_lru_element returns the least recently used value");
            if (r_n) { size_t kk = r_key[0], vv = r_val[0]; r_erase(0, false); r_key[r_n] = kk; r_val[r_n] = vv; r_n++; }
        } else if (op == 'M' && KIND == 3) {
            void *v = aws_lru_cache_get_mru_element(cache);
            ASSERT(v == (r_n ? (void *)&valobj[r_val[r_n - 1]] : NULL), "get_mru_element returns the most recently used value");
        }
        chk_state();
    }
    bool full = r_n == MAXI && KIND != 0;
    /* tear-down: every remaining entry is destroyed exactly once, every node and the cache object are released */
    if (KIND == 0) aws_linked_hash_table_clean_up(&lht); else aws_cache_destroy(cache);
    while (r_n) r_erase(r_n - 1, true);
    for (size_t k = 0; k < NK; ++k) ASSERT(kd[k] == exp_kd[k], "tear-down: key destructor ran exactly once per remaining key");
    for (size_t v = 0; v < 16; ++v) ASSERT(vd[v] == exp_vd[v], "tear-down: value destructor ran exactly once per remaining value");
    ASSERT(live_nodes() == 0, "tear-down: every node released");
    if (KIND != 0) ASSERT(!cache_live, "tear-down: cache object released");
    if (full) WITNESS("cache full at the end");
    if (saw_evict) WITNESS("an entry was evicted by the policy");
    if (saw_replace_distinct) WITNESS("existing key replaced through an equal-but-distinct key pointer");
    if (saw_replace_same) WITNESS("existing key replaced through the same pointer");
    WITNESS("program");
}
