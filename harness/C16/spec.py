# C16 — checked arithmetic and time-unit conversion
UNITS_T = {"SECS": 1, "MILLIS": 1000, "MICROS": 1000000, "NANOS": 1000000000}


def spec(tier):
    units = {"m": dict(harness=["C16/h_math.c"], sources=["source/error.c"], stubs=["base.c"]),
             "mtwin": dict(harness=["C16/h_math.c"], sources=["source/error.c"], stubs=["base.c"], defines={"TWIN": None})}
    jobs = []
    for e, be, uw in [("h_add_u64", "minisat", 2), ("h_add_u32", "minisat", 2), ("h_sub", "minisat", 2), ("h_mul_u32", "kissat", 2),
                      ("h_mul_u64", "kissat", 2), ("h_pow2", "minisat", 2), ("h_clz_ctz", "minisat", 66),
                      ("h_clz_ctz_portable", "minisat", 66), ("h_min_max", "minisat", 2)]:
        j = dict(unit="m", entry=e, unwind=uw, backend=be, bounds="operands unconstrained (full 32/64-bit range)",
                 what="exact-or-flagged against a wider reference; portable variant side by side")
        if e == "h_clz_ctz_portable":
            # the portable clz/ctz shift signed values (n <<= 1, 1 << idx): signed-shift overflow by the letter of C,
            # functional results are what the property states -> advisory
            j["advisory"] = ["arithmetic overflow on signed shl", "shift distance too large", "arithmetic overflow on signed <<"]
        jobs.append(j)
    units["port"] = dict(harness=["C16/h_math.c"], sources=["source/error.c"], stubs=["base.c"], defines={"PORT_BITS": 8, "FREQ_MAX": "256ULL"})
    jobs.append(dict(unit="port", entry="h_mul_u64_portable", unwind=2, backend="kissat", timeout=400,
                     bounds="one operand < 2^8 (either one), the other unconstrained 64-bit -- the full 64x64 divider finished on no back end",
                     what="portable mul_u64 (division-based guard) vs 128-bit reference"))
    jobs.append(dict(unit="port", entry="h_mul_u32_portable", unwind=2, backend="kissat", timeout=400,
                     bounds="one operand < 2^4 (either one), the other unconstrained 32-bit",
                     what="portable mul_u32 (division-based guard) vs 64-bit reference"))
    pairs = [(a, b) for a in UNITS_T for b in UNITS_T]
    for a, b in pairs:
        u = "cv_%s_%s" % (a, b)
        units[u] = dict(harness=["C16/h_math.c"], sources=["source/error.c"], stubs=["base.c"], defines={"FROM": "%dULL" % UNITS_T[a], "TO": "%dULL" % UNITS_T[b]})
        jobs.append(dict(unit=u, entry="h_convert_units", unwind=2, backend="cvc5int", timeout=600,
                         bounds="%s -> %s, ticks unconstrained 64-bit, with and without remainder" % (a, b),
                         what="aws_timestamp_convert %s -> %s == floor/saturate, documented remainder" % (a, b)))
    units["cv_twin"] = dict(harness=["C16/h_math.c"], sources=["source/error.c"], stubs=["base.c"], defines={"TWIN": None})
    jobs.append(dict(unit="cv_twin", entry="h_convert_units", unwind=2, backend="cvc5int", timeout=600, must_fail=["MUTATED-SPEC twin"],
                     bounds="mutated-spec twin NANOS->MILLIS", what="guard for the bv-as-int route"))
    jobs.append(dict(unit="port", entry="h_convert_freq", unwind=2, backend="cvc5int", timeout=400,
                     bounds="old/new frequency 1..256 symbolic (10^9 did not finish within 15 min), ticks unconstrained 64-bit",
                     what="aws_timestamp_convert_u64 with arbitrary frequencies, division-free floor spec"))
    units["rem16"] = dict(harness=["C16/h_math.c"], sources=["source/error.c"], stubs=["base.c"], defines={"PORT_BITS": 8, "FREQ_MAX": "16ULL"})
    jobs.append(dict(unit="rem16", entry="h_convert_freq_remainder", unwind=2, backend="cvc5int", timeout=400,
                     bounds="old/new frequency 1..16 symbolic, ticks unconstrained 64-bit", what="documented remainder for arbitrary frequencies"))
    meta = dict(functions_encoded=["math.inl (sub/size/pow2/min/max)", "math.gcc_overflow.inl", "math.gcc_builtin.inl", "math.fallback.inl (renamed fb_*)",
                                   "clock.inl aws_timestamp_convert[_u64]", "math.gcc_x64_asm.inl via the asm2smt precheck (z3)"],
                bounds="all operands full width; frequencies 1..10^9",
                stubs=["base.c (aws_fatal_assert => assertion)"],
                out=["math.msvc_x64.inl, math.gcc_arm64_asm.inl (other platforms)", "signed-shift UB in the portable clz/ctz is advisory",
                     "portable (division-based) mul: pairs where BOTH operands are >= 2^8 (u64) / 2^4 (u32); arbitrary frequencies above 256"],
                assumptions=["cvc5 --solve-bv-as-int=sum is sound (guarded by mutated-spec twins that must fail)"])
    return dict(units=units, jobs=jobs, meta=meta, prechecks=[dict(name="asm2smt: math.gcc_x64_asm.inl == spec (z3)", cmd="python3-vt $VERIF/engine/asm2smt.py", timeout=300, violation_rc=1)])
