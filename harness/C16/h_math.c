/* C16 — checked arithmetic: production variant (gcc overflow builtins + gcc bit builtins), the
 * portable fallback variant side by side under renamed symbols, and time-unit conversion. */
#include "verif.h"
#include <aws/common/math.h>
#include <aws/common/clock.h>
#include <aws/common/error.h>

/* the portable variant, renamed (math.inl would never select it with this compiler) */
#define aws_mul_u64_saturating fb_mul_u64_saturating
#define aws_mul_u64_checked fb_mul_u64_checked
#define aws_mul_u32_saturating fb_mul_u32_saturating
#define aws_mul_u32_checked fb_mul_u32_checked
#define aws_add_u64_saturating fb_add_u64_saturating
#define aws_add_u64_checked fb_add_u64_checked
#define aws_add_u32_saturating fb_add_u32_saturating
#define aws_add_u32_checked fb_add_u32_checked
#define aws_clz_u32 fb_clz_u32
#define aws_clz_i32 fb_clz_i32
#define aws_clz_u64 fb_clz_u64
#define aws_clz_i64 fb_clz_i64
#define aws_clz_size fb_clz_size
#define aws_ctz_u32 fb_ctz_u32
#define aws_ctz_i32 fb_ctz_i32
#define aws_ctz_u64 fb_ctz_u64
#define aws_ctz_i64 fb_ctz_i64
#define aws_ctz_size fb_ctz_size
AWS_STATIC_IMPL size_t fb_clz_i32(int32_t n);
AWS_STATIC_IMPL size_t fb_clz_i64(int64_t n);
AWS_STATIC_IMPL size_t fb_ctz_i32(int32_t n);
AWS_STATIC_IMPL size_t fb_ctz_i64(int64_t n);
#include <aws/common/math.fallback.inl>
#undef aws_mul_u64_saturating
#undef aws_mul_u64_checked
#undef aws_mul_u32_saturating
#undef aws_mul_u32_checked
#undef aws_add_u64_saturating
#undef aws_add_u64_checked
#undef aws_add_u32_saturating
#undef aws_add_u32_checked
#undef aws_clz_u32
#undef aws_clz_i32
#undef aws_clz_u64
#undef aws_clz_i64
#undef aws_clz_size
#undef aws_ctz_u32
#undef aws_ctz_i32
#undef aws_ctz_u64
#undef aws_ctz_i64
#undef aws_ctz_size

typedef unsigned __int128 u128;
#ifndef PORT_BITS
#    define PORT_BITS 64
#endif

void h_add_u64(void) {
    uint64_t a = nd_u64(), b = nd_u64(), r = nd_u64(), r0 = r;
    u128 ex = (u128)a + b;
    bool fits = ex <= UINT64_MAX;
    int rc = aws_add_u64_checked(a, b, &r);
    ASSERT((rc == AWS_OP_SUCCESS) == fits, "add_u64_checked: success iff the exact sum fits");
    if (fits) ASSERT(r == (uint64_t)ex, "add_u64_checked: exact result"); else ASSERT(aws_last_error() == AWS_ERROR_OVERFLOW_DETECTED, "add_u64_checked: overflow error code");
    ASSERT(aws_add_u64_saturating(a, b) == (fits ? (uint64_t)ex : UINT64_MAX), "add_u64_saturating: exact or max");
    uint64_t r2 = r0;
    int rc2 = fb_add_u64_checked(a, b, &r2);
    ASSERT((rc2 == AWS_OP_SUCCESS) == fits && (!fits || r2 == (uint64_t)ex), "portable add_u64_checked agrees");
    ASSERT(fb_add_u64_saturating(a, b) == (fits ? (uint64_t)ex : UINT64_MAX), "portable add_u64_saturating agrees");
    size_t s = nd_size();
    ASSERT(aws_add_size_saturating(a, b) == (fits ? (size_t)ex : SIZE_MAX), "add_size_saturating");
    ASSERT((aws_add_size_checked(a, b, &s) == AWS_OP_SUCCESS) == fits && (!fits || s == (size_t)ex), "add_size_checked");
    if (!fits) WITNESS("add_u64 overflow");
    if (ex == (u128)UINT64_MAX && a > 1 && b > 1) WITNESS("add_u64 exactly max");
}
void h_add_u32(void) {
    uint32_t a = nd_u32(), b = nd_u32(), r = nd_u32(), r2 = r;
    uint64_t ex = (uint64_t)a + b;
    bool fits = ex <= UINT32_MAX;
    ASSERT((aws_add_u32_checked(a, b, &r) == AWS_OP_SUCCESS) == fits && (!fits || r == (uint32_t)ex), "add_u32_checked");
    ASSERT(aws_add_u32_saturating(a, b) == (fits ? (uint32_t)ex : UINT32_MAX), "add_u32_saturating");
    ASSERT((fb_add_u32_checked(a, b, &r2) == AWS_OP_SUCCESS) == fits && (!fits || r2 == (uint32_t)ex), "portable add_u32_checked agrees");
    ASSERT(fb_add_u32_saturating(a, b) == (fits ? (uint32_t)ex : UINT32_MAX), "portable add_u32_saturating agrees");
    if (!fits) WITNESS("add_u32 overflow");
}
void h_sub(void) {
    uint64_t a = nd_u64(), b = nd_u64(), r = nd_u64(), r0 = r;
    int rc = aws_sub_u64_checked(a, b, &r);
    ASSERT((rc == AWS_OP_SUCCESS) == (a >= b), "sub_u64_checked: success iff a >= b");
    if (a >= b) ASSERT(r == a - b, "sub_u64_checked exact"); else ASSERT(r == r0 && aws_last_error() == AWS_ERROR_OVERFLOW_DETECTED, "sub_u64_checked: flagged, output untouched");
    ASSERT(aws_sub_u64_saturating(a, b) == (a >= b ? a - b : 0), "sub_u64_saturating: exact or zero");
    size_t s = nd_size();
    ASSERT((aws_sub_size_checked(a, b, &s) == AWS_OP_SUCCESS) == (a >= b) && (a < b || s == a - b), "sub_size_checked");
    ASSERT(aws_sub_size_saturating(a, b) == (a >= b ? a - b : 0), "sub_size_saturating");
    uint32_t c = nd_u32(), d = nd_u32(), q = nd_u32();
    ASSERT((aws_sub_u32_checked(c, d, &q) == AWS_OP_SUCCESS) == (c >= d) && (c < d || q == c - d), "sub_u32_checked");
    ASSERT(aws_sub_u32_saturating(c, d) == (c >= d ? c - d : 0), "sub_u32_saturating");
    if (a < b) WITNESS("sub underflow");
}
void h_mul_u32(void) {
    uint32_t a = nd_u32(), b = nd_u32(), r = nd_u32(), r2 = r;
    uint64_t ex = (uint64_t)a * b;
    bool fits = ex <= UINT32_MAX;
    ASSERT((aws_mul_u32_checked(a, b, &r) == AWS_OP_SUCCESS) == fits && (!fits || r == (uint32_t)ex), "mul_u32_checked");
    ASSERT(aws_mul_u32_saturating(a, b) == (fits ? (uint32_t)ex : UINT32_MAX), "mul_u32_saturating");
    (void)r2;
    if (!fits) WITNESS("mul_u32 overflow");

}
void h_mul_u32_portable(void) {
    uint32_t a = nd_u32(), b = nd_u32(), r2 = nd_u32();
#if PORT_BITS < 64
    ASSUME(a < (1u << (PORT_BITS / 2)) || b < (1u << (PORT_BITS / 2)));
#endif
    uint64_t ex = (uint64_t)a * b;
    bool fits = ex <= UINT32_MAX;
    ASSERT((fb_mul_u32_checked(a, b, &r2) == AWS_OP_SUCCESS) == fits && (!fits || r2 == (uint32_t)ex), "portable mul_u32_checked agrees");
    ASSERT(fb_mul_u32_saturating(a, b) == (fits ? (uint32_t)ex : UINT32_MAX), "portable mul_u32_saturating agrees");
    if (!fits) WITNESS("portable mul_u32 overflow");
}
void h_mul_u64(void) { /* production variant vs 128-bit reference */
    uint64_t a = nd_u64(), b = nd_u64(), r = nd_u64();
    u128 ex = (u128)a * b;
    bool fits = ex <= UINT64_MAX;
    ASSERT((aws_mul_u64_checked(a, b, &r) == AWS_OP_SUCCESS) == fits && (!fits || r == (uint64_t)ex), "mul_u64_checked");
    ASSERT(aws_mul_u64_saturating(a, b) == (fits ? (uint64_t)ex : UINT64_MAX), "mul_u64_saturating");
    size_t s = nd_size();
    ASSERT((aws_mul_size_checked(a, b, &s) == AWS_OP_SUCCESS) == fits && (!fits || s == (size_t)ex), "mul_size_checked");
    ASSERT(aws_mul_size_saturating(a, b) == (fits ? (size_t)ex : SIZE_MAX), "mul_size_saturating");
    if (!fits) WITNESS("mul_u64 overflow");
    if (fits && a > 1 && b > 1) WITNESS("mul_u64 fits");
}
void h_mul_u64_portable(void) { /* portable variant (division-based guard) vs 128-bit reference */
    uint64_t a = nd_u64(), b = nd_u64(), r = nd_u64();
#if PORT_BITS < 64
    /* the 64-by-64 divider does not finish on any back end: one operand is bounded (either one), the other is full width */
    ASSUME(a < (1ULL << PORT_BITS) || b < (1ULL << PORT_BITS));
#endif
    u128 ex = (u128)a * b;
    bool fits = ex <= UINT64_MAX;
    ASSERT((fb_mul_u64_checked(a, b, &r) == AWS_OP_SUCCESS) == fits && (!fits || r == (uint64_t)ex), "portable mul_u64_checked");
    ASSERT(fb_mul_u64_saturating(a, b) == (fits ? (uint64_t)ex : UINT64_MAX), "portable mul_u64_saturating");
#ifdef TWIN
    ASSERT(fb_mul_u64_saturating(a, b) != 0x1234567 + 1u || a != 0x1234567 || b != 1, "MUTATED-SPEC twin (must fail)");
#endif
    if (!fits) WITNESS("portable mul_u64 overflow");
}
void h_pow2(void) {
    size_t n = nd_size(), r = nd_size(), r0 = r;
    bool p = aws_is_power_of_two(n);
    unsigned pop = (unsigned)__builtin_popcountll(n);
    ASSERT(p == (pop == 1), "is_power_of_two: exactly one bit set");
    int rc = aws_round_up_to_power_of_two(n, &r);
    if (n > ((size_t)1 << 63)) {
        ASSERT(rc == AWS_OP_ERR && aws_last_error() == AWS_ERROR_OVERFLOW_DETECTED && r == r0, "round_up: overflow exactly when n > 2^63");
        WITNESS("round_up overflow");
    } else {
        ASSERT(rc == AWS_OP_SUCCESS, "round_up succeeds");
        ASSERT(__builtin_popcountll(r) == 1 && r >= n && (r == 1 || (r >> 1) < n), "round_up: least power of two >= n");
        if (n > 3 && !p) WITNESS("round_up non-trivial");
    }
}
static size_t ref_clz64(uint64_t v) { size_t c = 0; for (int i = 63; i >= 0; --i) { if ((v >> i) & 1) break; c++; } return c; }
static size_t ref_ctz64(uint64_t v) { size_t c = 0; for (int i = 0; i < 64; ++i) { if ((v >> i) & 1) break; c++; } return c; }
void h_clz_ctz(void) {
    uint64_t x = nd_u64();
    uint32_t y = (uint32_t)nd_u32();
    size_t c64 = ref_clz64(x), t64 = ref_ctz64(x);
    size_t c32 = y ? ref_clz64(y) - 32 : 32, t32 = y ? ref_ctz64(y) : 32;
    ASSERT(aws_clz_u64(x) == c64 && aws_clz_i64((int64_t)x) == c64 && aws_clz_size(x) == c64, "clz 64-bit widths");
    ASSERT(aws_ctz_u64(x) == t64 && aws_ctz_i64((int64_t)x) == t64 && aws_ctz_size(x) == t64, "ctz 64-bit widths");
    ASSERT(aws_clz_u32(y) == c32 && aws_clz_i32((int32_t)y) == c32, "clz 32-bit widths");
    ASSERT(aws_ctz_u32(y) == t32 && aws_ctz_i32((int32_t)y) == t32, "ctz 32-bit widths");
    if (x == 0 && y == 0) WITNESS("clz/ctz of zero");
    if ((x >> 63) && (y >> 31)) WITNESS("clz top bit");
}
void h_clz_ctz_portable(void) {
    uint64_t x = nd_u64();
    uint32_t y = (uint32_t)nd_u32();
    ASSERT(fb_clz_u64(x) == aws_clz_u64(x) && fb_clz_i64((int64_t)x) == aws_clz_i64((int64_t)x) && fb_clz_size(x) == aws_clz_size(x), "portable clz64 agrees");
    ASSERT(fb_ctz_u64(x) == aws_ctz_u64(x) && fb_ctz_i64((int64_t)x) == aws_ctz_i64((int64_t)x) && fb_ctz_size(x) == aws_ctz_size(x), "portable ctz64 agrees");
    ASSERT(fb_clz_u32(y) == aws_clz_u32(y) && fb_clz_i32((int32_t)y) == aws_clz_i32((int32_t)y), "portable clz32 agrees");
    ASSERT(fb_ctz_u32(y) == aws_ctz_u32(y) && fb_ctz_i32((int32_t)y) == aws_ctz_i32((int32_t)y), "portable ctz32 agrees");
    WITNESS("portable clz/ctz");
}
#define MM(T, name, nd)                                                                                                \
    {                                                                                                                  \
        T a = (T)nd, b = (T)nd;                                                                                        \
        T mn = aws_min_##name(a, b), mx = aws_max_##name(a, b);                                                        \
        ASSERT((mn == a || mn == b) && mn <= a && mn <= b, "min_" #name);                                              \
        ASSERT((mx == a || mx == b) && mx >= a && mx >= b, "max_" #name);                                              \
    }
void h_min_max(void) {
    MM(uint8_t, u8, nd_u8()) MM(int8_t, i8, nd_u8()) MM(uint16_t, u16, nd_u16()) MM(int16_t, i16, nd_u16())
    MM(uint32_t, u32, nd_u32()) MM(int32_t, i32, nd_u32()) MM(uint64_t, u64, nd_u64()) MM(int64_t, i64, nd_u64())
    MM(size_t, size, nd_size()) MM(int, int, nd_int())
    double x = nd_double(), y = nd_double();
    float f = nd_float(), g = nd_float();
    if (x == x && y == y) { /* ordered operands: mathematical min/max; NaN follows the C expression a<b?a:b */
        double mn = aws_min_double(x, y), mx = aws_max_double(x, y);
        ASSERT(mn <= x && mn <= y && (mn == x || mn == y), "min_double");
        ASSERT(mx >= x && mx >= y && (mx == x || mx == y), "max_double");
    } else {
        double mn = aws_min_double(x, y);
        ASSERT(mn != mn || mn == y, "min_double with NaN returns the second operand (a<b is false)");
    }
    if (f == f && g == g) {
        float mn = aws_min_float(f, g), mx = aws_max_float(f, g);
        ASSERT(mn <= f && mn <= g && (mn == f || mn == g), "min_float");
        ASSERT(mx >= f && mx >= g && (mx == f || mx == g), "max_float");
    }
    WITNESS("min/max");
}

/* ---- time conversion --------------------------------------------------------- */
#ifndef FROM
#    define FROM 1000000000ULL
#    define TO 1000ULL
#endif
/* spec, division-free: r is the floor of t*TO/FROM (so r*FROM <= t*TO < (r+1)*FROM) or saturates */
void h_convert_units(void) {
    uint64_t t = nd_u64(), rem = nd_u64();
    bool want_rem = nd_bool();
    uint64_t r = aws_timestamp_convert(t, (enum aws_timestamp_unit)FROM, (enum aws_timestamp_unit)TO, want_rem ? &rem : NULL);
    u128 num = (u128)t * TO;
    if (num / FROM > (u128)UINT64_MAX) {
        ASSERT(r == UINT64_MAX, "convert: saturates when the result does not fit");
        WITNESS("convert saturates");
    } else {
        ASSERT((u128)r * FROM <= num && num < ((u128)r + 1) * FROM, "convert: floor(ticks * new / old)");
#ifdef TWIN
        ASSERT(!(t == 123456789 && (u128)r * FROM <= num), "MUTATED-SPEC twin (must fail)");
#endif
    }
    if (want_rem) {
        if (TO < FROM && FROM % TO == 0) ASSERT(rem == t % (FROM / TO), "convert: remainder = ticks mod (old/new)");
        else ASSERT(rem == 0, "convert: remainder 0 when not going to a coarser unit");
    }
    WITNESS("convert");
}
void h_convert_freq(void) { /* arbitrary frequencies 1..10^9 */
    uint64_t t = nd_u64(), of = nd_u64(), nf = nd_u64();
#ifndef FREQ_MAX
#    define FREQ_MAX 1000000000ULL
#endif
    ASSUME(of >= 1 && of <= FREQ_MAX && nf >= 1 && nf <= FREQ_MAX);
    uint64_t r = aws_timestamp_convert_u64(t, of, nf, NULL);
    u128 num = (u128)t * nf;
    u128 hi = (u128)UINT64_MAX * of + (of - 1); /* num <= hi  <=>  floor(num/of) <= UINT64_MAX */
    if (num > hi) {
        ASSERT(r == UINT64_MAX, "convert_u64: saturates when the result does not fit");
        WITNESS("convert_u64 saturates");
    } else {
        ASSERT((u128)r * of <= num && num < ((u128)r + 1) * of, "convert_u64: floor(ticks * new / old)");
        if (of != nf && t > 1000000000000ULL) WITNESS("convert_u64 large ticks");
    }
}
void h_convert_freq_remainder(void) { /* the documented remainder for arbitrary frequencies */
    uint64_t t = nd_u64(), of = nd_u64(), nf = nd_u64(), rem = nd_u64();
    ASSUME(of >= 1 && of <= FREQ_MAX && nf >= 1 && nf <= FREQ_MAX);
    (void)aws_timestamp_convert_u64(t, of, nf, &rem);
    if (nf < of && of % nf == 0) {
        ASSERT(rem == t % (of / nf), "convert_u64: remainder = ticks mod (old/new) when old is a multiple of new");
        WITNESS("remainder computed");
    } else {
        ASSERT(rem == 0, "convert_u64: remainder is 0 unless the old frequency is a larger multiple of the new one");
        if (nf < of) WITNESS("coarser but not a divisor: remainder 0");
    }
}
