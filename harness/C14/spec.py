# C14 — logging (formatter / fixed-size truncation clause)
SRC = ["source/log_formatter.c", "source/common.c", "source/error.c", "source/math.c", "source/byte_buf.c"]


def spec(tier):
    units, jobs = {}, []
    for tl in ([2, 3, 5, 8, 16] if tier == "quick" else [2, 3, 4, 5, 6, 8, 12, 16, 24, 40]):
        u = "f%d" % tl
        units[u] = dict(harness=["C14/h_fmt.c"], sources=SRC, stubs=["base.c", "alloc_direct.c", "mem0.c"], defines={"TL": tl}, native=False)
        jobs.append(dict(unit=u, entry="h_format_line", unwind=tl + 5, bounds="line buffer of %d bytes; every snprintf/vsnprintf result length 0..%d (or failure) and every produced character symbolic; with/without subject" % (tl, tl + 3),
                         what="aws_format_standard_log_line: stays inside the buffer, ends in exactly one newline, contains no NUL, for every combination of piece lengths (all truncation points)"))
    meta = dict(functions_encoded=["source/log_formatter.c: aws_format_standard_log_line, s_advance_and_clamp_index"],
                bounds="buffer sizes 2..16 (quick) / 2..40 bytes; every piece length 0..size+3",
                stubs=["snprintf/vsnprintf: C99 contract model (returns arbitrary r, stores min(r,size-1) arbitrary non-NUL non-newline characters + NUL iff size>0)",
                       "aws_date_time_init_now / aws_date_time_to_utc_time_str: appends 0..TL characters or fails", "aws_thread_current_thread_id / aws_thread_id_t_to_string / aws_log_level_to_string: fixed"],
                out=["NOT DECIDED: level gate (logging.c), foreground/background channels (log_channel.c: needs thread interleavings), writers, total_length == 1",
                     "real libc formatting semantics"],
                assumptions=["libc snprintf/vsnprintf obey the C99 contract"])
    return dict(units=units, jobs=jobs, meta=meta)
