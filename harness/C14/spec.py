# C14 — logging (formatter / fixed-size truncation clause)
SRC = ["source/log_formatter.c", "source/common.c", "source/error.c", "source/math.c", "source/byte_buf.c"]


def spec(tier):
    units, jobs = {}, []
    for tl in ([2, 3, 5, 8, 16] if tier == "quick" else [2, 3, 4, 5, 6, 8, 12, 16, 24, 40]):
        u = "f%d" % tl
        units[u] = dict(harness=["C14/h_fmt.c"], sources=SRC, stubs=["base.c", "alloc_direct.c", "mem0.c"], defines={"TL": tl}, native=False)
        jobs.append(dict(unit=u, entry="h_format_line", unwind=tl + 5, bounds="line buffer of %d bytes; every snprintf/vsnprintf result length 0..%d (or failure) and every produced character symbolic; with/without subject" % (tl, tl + 3),
                         what="aws_format_standard_log_line: stays inside the buffer, ends in exactly one newline, contains no NUL, for every combination of piece lengths (all truncation points)"))
    GSRC = ["source/log_channel.c", "source/string.c", "source/byte_buf.c", "source/common.c", "source/error.c", "source/math.c", "source/array_list.c"]
    FPR = {"h_level_gate.function_pointer_call.1": ["s_aws_logger_pipeline_get_log_level"], "h_level_gate.function_pointer_call.2": ["s_aws_logger_pipeline_log"],
           "s_aws_logger_pipeline_log.function_pointer_call.1": ["fmt_format"], "s_aws_logger_pipeline_log.function_pointer_call.2": ["s_foreground_channel_send"],
           "s_foreground_channel_send.function_pointer_call.1": ["wr_write"], "aws_logger_set_log_level.function_pointer_call.1": ["s_aws_logger_pipeline_set_log_level"],
           "aws_log_channel_clean_up.function_pointer_call.1": ["s_foreground_channel_clean_up"],
           "h_level_gate_not_root.function_pointer_call.1": ["s_aws_logger_pipeline_get_log_level"], "h_level_gate_not_root.function_pointer_call.2": ["s_aws_logger_pipeline_log"]}
    for k in ((2, 3) if tier == "quick" else (2, 3, 4, 5)):
        u = "g%d" % k
        units[u] = dict(harness=["C14/h_gate.c"], sources=GSRC, stubs=["base.c", "alloc_direct.c", "memcpy_loop.c", "memchr.c"], defines={"K": k, "VERIF_REAL_LOGGING": None}, fp_restrict=FPR,
                        cflags=["-DVERIF_GATE"], pre_include=["stubs/plain_atomics.h"], native=False)
        jobs.append(dict(unit=u, entry="h_level_gate", unwind=k + 3, timeout=300 if tier == "quick" else 2400,
                         bounds="%d log calls with symbolic levels (all 6), initial level and one level change at a symbolic position symbolic (0..6 incl. NONE)" % k,
                         what="level gate + foreground channel: accepted iff level <= active level; exactly one write per accepted call, in order, under the mutex"))
        jobs.append(dict(unit=u, entry="h_level_gate_not_root", unwind=k + 3, timeout=300 if tier == "quick" else 2400,
                         bounds="%d AWS_LOGUF calls with symbolic levels on a pipeline logger that is not the root logger; root logger absent or another logger with a symbolic level" % k,
                         what="level gate for a non-root logger: the logger's own level decides, the root logger has no influence"))
    meta = dict(functions_encoded=["source/log_formatter.c: aws_format_standard_log_line, s_advance_and_clamp_index",
                                   "source/logging.c: aws_logger_init_from_external, pipeline log/get_level/set_level, aws_logger_set/get, aws_logger_set_log_level", "source/log_channel.c: foreground channel",
                                   "AWS_LOGF macro"],
                bounds="buffer sizes 2..16 (quick) / 2..40 bytes; every piece length 0..size+3",
                stubs=["snprintf/vsnprintf: C99 contract model (returns arbitrary r, stores min(r,size-1) arbitrary non-NUL non-newline characters + NUL iff size>0)",
                       "aws_date_time_init_now / aws_date_time_to_utc_time_str: appends 0..TL characters or fails", "aws_thread_current_thread_id / aws_thread_id_t_to_string / aws_log_level_to_string: fixed"],
                out=["NOT DECIDED: background channel (needs thread interleavings CBMC rejects for pointer-sharing threads), real FILE* writers, total_length == 1",
                     "real libc formatting semantics"],
                assumptions=["libc snprintf/vsnprintf obey the C99 contract"])
    return dict(units=units, jobs=jobs, meta=meta)
