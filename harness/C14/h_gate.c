/* C14 (b)+(c) — level gate and foreground channel: a pipeline logger built with aws_logger_init_from_external over the REAL
 * foreground channel (log_channel.c), a harness formatter (one aws_string per call, tagged with the call number) and a harness
 * writer (records what arrives).  K log calls with symbolic levels, a level change at a symbolic position. */
#include "verif.h"
#include <logging.c> /* part of this TU: the pipeline logger is constructed field by field (see below) */
#include <aws/common/log_channel.h>
#include <aws/common/log_formatter.h>
#include <aws/common/log_writer.h>
#include <aws/common/mutex.h>
#include <aws/common/string.h>
#include <aws/common/error.h>
#ifndef K
#    define K 3
#endif
/* ---- mutex stub: lock discipline ---- */
static bool held;
int aws_mutex_init(struct aws_mutex *m) { (void)m; return AWS_OP_SUCCESS; }
void aws_mutex_clean_up(struct aws_mutex *m) { (void)m; }
int aws_mutex_lock(struct aws_mutex *m) { (void)m; ASSERT(!held, "mutex: not locked twice"); held = true; return AWS_OP_SUCCESS; }
int aws_mutex_unlock(struct aws_mutex *m) { (void)m; ASSERT(held, "mutex: unlock only when held"); held = false; return AWS_OP_SUCCESS; }
/* ---- formatter / writer ---- */
static unsigned call_no, formatted, written;
static unsigned written_tag[K + 1];
static int fmt_format(struct aws_log_formatter *f, struct aws_string **out, enum aws_log_level l, aws_log_subject_t s, const char *fmt, va_list a) {
    (void)f; (void)l; (void)s; (void)fmt; (void)a;
    /* statically allocated lines (allocator NULL => aws_string_destroy is a no-op): writing into a heap-allocated aws_string
     * (struct with flexible array member) stalls CBMC's symbolic execution; line ownership is therefore NOT part of this obligation */
    static struct { struct aws_allocator *allocator; size_t len; uint8_t bytes[2]; } lines[K + 1];
    lines[call_no % (K + 1)].allocator = NULL;
    lines[call_no % (K + 1)].len = 1;
    lines[call_no % (K + 1)].bytes[0] = (uint8_t)('0' + call_no);
    *out = (struct aws_string *)&lines[call_no % (K + 1)];
    formatted++;
    return AWS_OP_SUCCESS;
}
static void fmt_clean_up(struct aws_log_formatter *f) { (void)f; }
static struct aws_log_formatter_vtable fmt_vt = {.format = fmt_format, .clean_up = fmt_clean_up};
static int wr_write(struct aws_log_writer *w, const struct aws_string *line) {
    (void)w;
    ASSERT(held, "foreground channel: the writer is called with the channel mutex held");
    ASSERT(line->len == 1, "writer: receives the whole formatted line");
    if (written < K + 1) written_tag[written] = (unsigned)(aws_string_bytes(line)[0] - '0');
    written++;
    return AWS_OP_SUCCESS;
}
static void wr_clean_up(struct aws_log_writer *w) { (void)w; }
static struct aws_log_writer_vtable wr_vt = {.write = wr_write, .clean_up = wr_clean_up};

void h_level_gate(void) {
    struct aws_log_formatter fmt = {.vtable = &fmt_vt, .allocator = verif_allocator(), .impl = NULL};
    struct aws_log_writer wr = {.vtable = &wr_vt, .allocator = verif_allocator(), .impl = NULL};
    struct aws_log_channel ch;
    ASSERT(aws_log_channel_init_foreground(&ch, verif_allocator(), &wr) == AWS_OP_SUCCESS, "foreground channel init");
    unsigned cur = nd_u8();
    ASSUME(cur <= AWS_LL_TRACE);
    /* what aws_logger_init_from_external produces, written field by field into a local object: symbolic execution of the
     * assignments into the heap-allocated pipeline struct (type-punned atomic level field) did not get past the constructor */
    struct aws_logger_pipeline pipe = {.formatter = &fmt, .channel = &ch, .writer = &wr, .allocator = verif_allocator()};
    pipe.level.value = (void *)(uintptr_t)cur;
    struct aws_logger lg = {.vtable = &s_pipeline_logger_unowned_vtable, .allocator = verif_allocator(), .p_impl = &pipe};
    aws_logger_set(&lg);
    unsigned change_at = nd_u8(), newlevel = nd_u8();
    ASSUME(change_at <= K && newlevel <= AWS_LL_TRACE);
    unsigned expect = 0, exp_tag[K + 1];
    for (unsigned i = 0; i < K; ++i) {
        if (i == change_at) { ASSERT(aws_logger_set_log_level(&lg, (enum aws_log_level)newlevel) == AWS_OP_SUCCESS, "set_log_level"); cur = newlevel; }
        unsigned lvl = nd_u8();
        ASSUME(lvl >= AWS_LL_FATAL && lvl <= AWS_LL_TRACE);
        call_no = i + 1;
        unsigned before = written;
        AWS_LOGF((enum aws_log_level)lvl, AWS_LS_COMMON_GENERAL, "msg %d", (int)i);
        if (lvl <= cur) { exp_tag[expect++] = i + 1; ASSERT(written == before + 1, "level gate: a call at or below the active level produces exactly one line"); }
        else ASSERT(written == before, "level gate: a call above the active level produces nothing");
        ASSERT(!held, "foreground channel: mutex released after the send");
    }
    ASSERT(written == expect && formatted == expect, "every accepted call is formatted once and reaches the writer once");
    for (unsigned i = 0; i < K; ++i) if (i < expect) ASSERT(written_tag[i] == exp_tag[i], "lines reach the writer in call order, each the line of its own call");
    aws_logger_set(NULL);
    aws_log_channel_clean_up(&ch);
    if (expect == K && change_at < K) WITNESS("all calls accepted with a level change in between");
    if (expect == 0) WITNESS("all calls filtered");
    WITNESS("gate");
}

/* The same gate for a logger that is NOT the process-wide root logger (language bindings and AWS_LOGUF users hold their own logger):
 * the active level is the level of the logger the call is made on; the root logger - absent, or another logger with another level -
 * must not influence it. */
static unsigned other_level, other_logged;
static int other_log(struct aws_logger *l, enum aws_log_level lv, aws_log_subject_t s, const char *f, ...) { (void)l; (void)lv; (void)s; (void)f; other_logged++; return AWS_OP_SUCCESS; }
static enum aws_log_level other_get_level(struct aws_logger *l, aws_log_subject_t s) { (void)l; (void)s; return (enum aws_log_level)other_level; }
static void other_clean_up(struct aws_logger *l) { (void)l; }
static struct aws_logger_vtable other_vt = {.log = other_log, .get_log_level = other_get_level, .clean_up = other_clean_up, .set_log_level = NULL};
void h_level_gate_not_root(void) {
    struct aws_log_formatter fmt = {.vtable = &fmt_vt, .allocator = verif_allocator(), .impl = NULL};
    struct aws_log_writer wr = {.vtable = &wr_vt, .allocator = verif_allocator(), .impl = NULL};
    struct aws_log_channel ch;
    ASSERT(aws_log_channel_init_foreground(&ch, verif_allocator(), &wr) == AWS_OP_SUCCESS, "foreground channel init");
    unsigned cur = nd_u8();
    ASSUME(cur <= AWS_LL_TRACE);
    struct aws_logger_pipeline pipe = {.formatter = &fmt, .channel = &ch, .writer = &wr, .allocator = verif_allocator()};
    pipe.level.value = (void *)(uintptr_t)cur;
    struct aws_logger lg = {.vtable = &s_pipeline_logger_unowned_vtable, .allocator = verif_allocator(), .p_impl = &pipe};
    struct aws_logger other = {.vtable = &other_vt, .allocator = verif_allocator(), .p_impl = NULL};
    struct aws_logger *lgp = &lg;
    bool have_root = nd_bool();
    other_level = nd_u8();
    ASSUME(other_level <= AWS_LL_TRACE);
    aws_logger_set(have_root ? &other : NULL);
    unsigned expect = 0;
    for (unsigned i = 0; i < K; ++i) {
        unsigned lvl = nd_u8();
        ASSUME(lvl >= AWS_LL_FATAL && lvl <= AWS_LL_TRACE);
        call_no = i + 1;
        unsigned before = written;
        if (lgp->vtable->get_log_level(lgp, AWS_LS_COMMON_GENERAL) >= (enum aws_log_level)lvl) { /* the manual level check AWS_LOGUF asks for */
            AWS_LOGUF(lgp, (enum aws_log_level)lvl, AWS_LS_COMMON_GENERAL, "msg %d", (int)i);
            ASSERT(lvl <= cur, "level gate: get_log_level reports the logger's own level");
            expect++;
            ASSERT(written == before + 1, "level gate (logger is not the root logger): a call at or below the logger's level produces exactly one line, whatever the root logger is");
        } else ASSERT(lvl > cur && written == before, "level gate: a call above the logger's level produces nothing");
    }
    ASSERT(written == expect && formatted == expect && other_logged == 0, "every accepted call reaches this logger's writer once and nothing goes to the root logger");
    aws_logger_set(NULL);
    aws_log_channel_clean_up(&ch);
    if (expect == K && have_root && other_level < AWS_LL_FATAL) WITNESS("accepted while the root logger is switched off");
    if (expect == K && !have_root) WITNESS("accepted with no root logger");
    WITNESS("gate not root");
}
