/* C14 (a) — aws_format_standard_log_line into a fixed-size buffer of TL bytes (constant per job).
 * libc formatting is replaced by CONTRACT stubs: snprintf/vsnprintf return an arbitrary r >= 0 (or < 0)
 * and, exactly as C99 specifies, store min(r, size-1) characters followed by a NUL iff size > 0.
 * The characters are arbitrary except NUL and '\n' (a message containing '\n' legitimately has more
 * than one newline). */
#include "verif.h"
#include <aws/common/log_formatter.h>
#include <aws/common/logging.h>
#include <aws/common/date_time.h>
#include <aws/common/thread.h>
#include <aws/common/error.h>
#include <stdarg.h>
#include <stdio.h>
#ifndef TL
#    define TL 8
#endif
static bool env_failed; /* some libc / timestamp stub reported failure: only then may the formatter fail */
#ifndef VERIF_NATIVE
static uint8_t msgch(void) { uint8_t c = nd_u8(); ASSUME(c != 0 && c != '\n'); return c; }
static int fmt_model(char *buf, size_t size) {
    int r = nd_int();
    ASSUME(r >= -1 && r <= TL + 3);
    if (r < 0) { env_failed = true; return r; }
    if (size > 0) {
        size_t n = (size_t)r < size - 1 ? (size_t)r : size - 1;
        for (size_t i = 0; i < TL + 3; ++i) if (i < n) buf[i] = (char)msgch();
        buf[n] = 0;
    }
    return r;
}
static int literal_model(char *buf, size_t size, const char *lit, int len) { /* a format without conversions produces itself */
    if (size > 0) {
        size_t n = (size_t)len < size - 1 ? (size_t)len : size - 1;
        for (size_t i = 0; i < 4; ++i) if (i < n) buf[i] = lit[i];
        buf[n] = 0;
    }
    return len;
}
int snprintf(char *buf, size_t size, const char *fmt, ...) {
    if (fmt[0] == '\n' && fmt[1] == 0) return literal_model(buf, size, fmt, 1);
    if (fmt[0] == ' ' && fmt[1] == '-' && fmt[2] == ' ' && fmt[3] == 0) return literal_model(buf, size, fmt, 3);
    return fmt_model(buf, size);
}
int vsnprintf(char *buf, size_t size, const char *fmt, va_list ap) { (void)fmt; (void)ap; return fmt_model(buf, size); }
#endif
/* environment stubs (date/time and thread id are not the subject) */
void aws_date_time_init_now(struct aws_date_time *dt) { (void)dt; }
int aws_date_time_to_utc_time_str(const struct aws_date_time *dt, enum aws_date_format f, struct aws_byte_buf *out) {
    (void)dt; (void)f;
    size_t n = nd_size();
    ASSUME(n <= TL);
    if (n > out->capacity - out->len) { env_failed = true; return aws_raise_error(AWS_ERROR_SHORT_BUFFER); }
    for (size_t i = 0; i < TL; ++i) if (i < n) out->buffer[out->len + i] = '0';
    out->len += n;
    return AWS_OP_SUCCESS;
}
aws_thread_id_t aws_thread_current_thread_id(void) { return (aws_thread_id_t)1; }
int aws_thread_id_t_to_string(aws_thread_id_t id, char *buf, size_t sz) { (void)id; if (sz) buf[0] = 0; return AWS_OP_SUCCESS; }
int aws_log_level_to_string(enum aws_log_level l, const char **s) { (void)l; *s = "INFO"; return AWS_OP_SUCCESS; }

static int call_fmt(struct aws_logging_standard_formatting_data *d, ...) {
    va_list ap;
    va_start(ap, d);
    int rc = aws_format_standard_log_line(d, ap);
    va_end(ap);
    return rc;
}
void h_format_line(void) {
    char *buf = verif_malloc(TL + 1); /* exactly the line buffer plus one guard byte */
    char guard = (char)nd_u8();
    buf[TL] = guard;
    struct aws_logging_standard_formatting_data d = {.log_line_buffer = buf, .total_length = TL, .level = AWS_LL_INFO,
        .subject_name = nd_bool() ? "subj" : NULL, .format = "%s", .date_format = AWS_DATE_FORMAT_ISO_8601, .allocator = NULL, .amount_written = 0};
    int rc = call_fmt(&d, "x");
    ASSERT(buf[TL] == guard, "log line: nothing is written outside the line buffer");
    if (rc == AWS_OP_SUCCESS) {
        ASSERT(d.amount_written >= 1 && d.amount_written <= TL, "log line: amount written stays inside the buffer");
        ASSERT(buf[d.amount_written - 1] == '\n', "log line: ends in a newline, also when the line had to be cut");
        unsigned nl = 0;
        for (size_t i = 0; i < TL; ++i)
            if (i < d.amount_written) {
                ASSERT(buf[i] != 0, "log line: contains no NUL");
                if (buf[i] == '\n') nl++;
            }
        ASSERT(nl == 1, "log line: exactly one newline");
        if (d.amount_written == TL - 1) WITNESS("log line cut at the end of the buffer (newline in the last byte before the terminator)");
        if (d.amount_written + 2 <= TL && d.amount_written > 3) WITNESS("log line shorter than the buffer");
    } else {
        /* (the formatter may fail without raising an error code when libc's snprintf itself fails; C14 does not speak about that) */
        ASSERT(env_failed, "log line: a line that merely does not fit is cut, not dropped (the formatter fails only if libc / the timestamp fails)");
        WITNESS("formatting failed");
    }
}
