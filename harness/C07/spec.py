# C07 — task scheduler
SRC = ["source/priority_queue.c", "source/array_list.c", "source/common.c", "source/error.c", "source/math.c"]
STUBS = ["base.c", "alloc_direct.c", "mem0.c"]
# (operations, re-entrant behaviour of task 0 / task 1)
# Scripts that reach aws_priority_queue_pop/remove with >= 1 queued timed task together with run_all (F..R, F0F1..) did not finish symbolic
# execution within 100 s (recursion task_fn -> cancel -> aws_task_run -> task_fn plus the heap sift loops); they are listed in DESIGN.md as
# not decided.  The priority queue's own ordering is C06's subject.
SCRIPTS = [("N0N1R", "--"), ("N0C0R", "--"), ("F0C0R", "--"), ("N0RR", "--"), ("N0F1", "--"), ("F0", "--"),
           ("N0RR", "n-"), ("N0N1R", "c-"), ("F0", "f-"), ("N0F1", "-n"), ("N0", "f-"), ("N0N1RR", "-n")]
THOROUGH = []
PROBE = [("F0R", "--"), ("F0F1R", "--"), ("F0F1RR", "--"), ("F0N1R", "--"), ("F0F1C0R", "--"), ("F0R", "f-"), ("F0F1R", "c-")]


def spec(tier):
    units, jobs = {}, []
    import os
    scripts = SCRIPTS + (THOROUGH if tier != "quick" else []) + (PROBE if os.environ.get("C07PROBE") else [])
    for i, (ops, react) in enumerate(scripts):
        k = sum(1 for c in ops if c in "NFCR")
        u = "s%d" % i
        units[u] = dict(harness=["C07/h_sched.c"], sources=SRC, stubs=STUBS, defines={"T": 2, "K": k, "OPS": '"%s"' % ops, "REACT": '"%s"' % react, "DIRECT_INIT": None, "VERIF_TYPED_ACQUIRE": 1})
        jobs.append(dict(unit=u, entry="h_sched_program", unwind=4, unwindset={"aws_array_list_mem_swap": 1, "aws_is_mem_zeroed": 7, "h_sched_program": k + 2}, timeout=100 if tier == "quick" else 1800,
                         bounds="program %s then clean_up; task functions: %s; all timestamps unconstrained 64-bit" % (ops, react),
                         what="init; %s; clean_up  (N=schedule_now F=schedule_future C=cancel R=run_all(t), digit=task; re-entrant behaviour %s: n/f schedule other now/future, c cancel other, s re-schedule self)" % (ops, react)))
    units["init"] = dict(harness=["C07/h_sched.c"], sources=SRC, stubs=STUBS, defines={"T": 2, "K": 1, "OPS": '"N0"', "REACT": '"--"'})
    jobs.append(dict(unit="init", entry="h_sched_program", unwind=4, unwindset={"aws_array_list_mem_swap": 1, "aws_is_mem_zeroed": 7, "h_sched_program": 3},
                     bounds="real aws_task_scheduler_init, then N0, clean_up", what="INIT: the constructor produces exactly the state the other jobs construct field by field"))
    meta = dict(functions_encoded=["all of source/task_scheduler.c", "priority_queue.c", "array_list.c", "linked_list.inl"],
                bounds="2 tasks, programs of up to %d operations from the curated script list (operation kinds concrete, every timestamp symbolic)" % max(sum(1 for c in o if c in "NFCR") for o, _ in scripts),
                stubs=["base.c (no logger)", "alloc_direct.c", "mem0.c"],
                out=["programs outside the script list", "more than 2 tasks", "the timed_list overflow path (priority-queue push failure: allocation never fails here)"],
                assumptions=["legal programs only: a task is scheduled when not pending, cancelled when pending (API precondition)"])
    return dict(units=units, jobs=jobs, meta=meta, max_parallel=16)
