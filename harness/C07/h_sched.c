/* C07 — task scheduler: bounded programs from aws_task_scheduler_init with T tasks and K operations.
 * Operation kinds are fixed per job by the SCRIPT digits (concrete), all data (times, re-entrant
 * behaviour of task functions) is symbolic.  Ghost bookkeeping decides exactly-once / never-early /
 * order / next-task-time. */
#include "verif.h"
#include <task_scheduler.c> /* the unit under test is part of this TU so that the scheduler can be constructed field by field */
#include <aws/common/error.h>
#ifndef T
#    define T 2
#endif
#ifndef K
#    define K 3
#endif
#ifndef SCRIPT
#    define SCRIPT 0 /* 0 = operation kinds symbolic */
#endif
static struct aws_task_scheduler sch;
/* every task is its OWN top-level object: the timed heap stores task pointers in symbolic order, and a pointer that may be task+0 or
 * task+1 of one ARRAY has a symbolic offset for CBMC (field-insensitive reads; measured in C18) */
static struct aws_task tk0, tk1, tk2;
static struct aws_task *const task[3] = {&tk0, &tk1, &tk2};
/* the two pointer arrays of the timed heap are statically TYPED objects (a malloc'ed block is an array of bytes for CBMC; task pointers and
 * back-pointers read back from such blocks end up in one value set and every later access is executed for all of them) */
enum { QN = 7 }; /* == DEFAULT_QUEUE_SIZE (a static const in task_scheduler.c; equality asserted in the harness) */
static struct aws_task *qdata[QN];
static struct aws_priority_queue_node *bpA[QN + 1], *bpB[QN + 1];
static bool bpA_live, bpB_live;
void *verif_typed_acquire(size_t size) { /* only the back-pointer array is allocated in these programs (grows by realloc: ping-pong) */
    ASSERT(size <= sizeof bpA && size % sizeof(void *) == 0, "harness: back-pointer array within the typed objects (bound)");
    if (!bpA_live) { bpA_live = true; return bpA; }
    ASSERT(!bpB_live, "harness: at most two back-pointer arrays alive (old and new during realloc)");
    bpB_live = true;
    return bpB;
}
bool verif_typed_release(void *p) {
    if (p == (void *)bpA) { ASSERT(bpA_live, "back-pointer array released once"); bpA_live = false; return true; }
    if (p == (void *)bpB) { ASSERT(bpB_live, "back-pointer array released once"); bpB_live = false; return true; }
    if (p == (void *)qdata) return true;
    return false;
}
static size_t task_index(const struct aws_task *p) { return p == &tk0 ? 0 : p == &tk1 ? 1 : p == &tk2 ? 2 : 99; }
/* ghost */
static bool pending[T], is_now[T];
static uint64_t when[T];
static unsigned sched_epoch[T], order_no[T];
static unsigned invoked[T], scheduled_count[T];
static unsigned epoch, order_ctr;
static bool in_run_all, in_cleanup, in_cancel;
static size_t cancel_target;
static uint64_t run_now;
static bool ran_timed_in_this_run;
static uint64_t last_timed;
static unsigned last_now_order;
static bool react_done[T];
#ifndef REACT
#    define REACT "--"
#endif
#ifndef OPS
#    define OPS "F0F1R"
#endif

static void g_schedule(size_t t, bool now, uint64_t time) {
    ASSUME(!pending[t]); /* API precondition: a task is (re)scheduled only when not currently scheduled */
    pending[t] = true; is_now[t] = now; when[t] = now ? 0 : time; sched_epoch[t] = epoch; order_no[t] = ++order_ctr; scheduled_count[t]++;
    if (now) aws_task_scheduler_schedule_now(&sch, task[t]); else aws_task_scheduler_schedule_future(&sch, task[t], time);
}
static void task_fn(struct aws_task *tk, void *arg, enum aws_task_status status) {
    size_t t = task_index(tk);
    ASSERT(t < T && arg == (void *)(uintptr_t)(t + 1), "task: function gets its own task and argument");
    ASSERT(pending[t], "task: invoked only while scheduled (never twice, never without being scheduled)");
    pending[t] = false;
    invoked[t]++;
    if (status == AWS_TASK_STATUS_RUN_READY) {
        ASSERT(in_run_all && !in_cancel, "task: RUN status only from run_all");
        ASSERT(is_now[t] || when[t] <= run_now, "task: never run before its time");
        ASSERT(sched_epoch[t] < epoch, "task: scheduled from inside a running task waits for the next run_all");
        if (is_now[t]) {
            ASSERT(!ran_timed_in_this_run, "order: run-now tasks execute before timed tasks");
            ASSERT(order_no[t] > last_now_order, "order: run-now tasks execute in the order they were scheduled");
            last_now_order = order_no[t];
        } else {
            ASSERT(!ran_timed_in_this_run || when[t] >= last_timed, "order: timed tasks execute in non-decreasing time order");
            ran_timed_in_this_run = true;
            last_timed = when[t];
        }
    } else {
        ASSERT(status == AWS_TASK_STATUS_CANCELED, "task: status is RUN or CANCELED");
        ASSERT(in_cleanup || (in_cancel && t == cancel_target), "task: CANCELED only via cancel of that task or clean_up");
    }
    static const char react[] = REACT; /* per job: what task t's function does when invoked (once): '-' nothing, 'n'/'f' schedule the
                                          other task now/future, 'c' cancel the other task, 's' re-schedule itself (future) */
    char ra = react[t];
    if (ra != '-' && !react_done[t] && (!in_cleanup || ra == 'f' || ra == 'n')) {
        react_done[t] = true;
        unsigned act = ra == 'n' ? 1 : ra == 'f' ? 2 : ra == 'c' ? 3 : 4;
        size_t o = act == 4 ? t : (t + 1) % T;
        if (act == 4) act = 2;
        if (act == 1 && !pending[o]) g_schedule(o, true, 0);
        else if (act == 2 && !pending[o]) g_schedule(o, false, nd_u64());
        else if (act == 3 && pending[o] && o != t && !in_cancel) {
            bool sv = in_cancel; size_t st = cancel_target;
            in_cancel = true; cancel_target = o;
            aws_task_scheduler_cancel_task(&sch, task[o]);
            in_cancel = sv; cancel_target = st;
            ASSERT(!pending[o], "cancel from inside a task invokes the target synchronously");
        }
    }
}
static void chk_next_time(void) {
    uint64_t nt = 12345;
    bool ht = aws_task_scheduler_has_tasks(&sch, &nt);
    bool any = false; uint64_t mn = UINT64_MAX;
    for (size_t t = 0; t < T; ++t) if (pending[t]) { any = true; uint64_t w = is_now[t] ? 0 : when[t]; if (w < mn) mn = w; }
    ASSERT(ht == any, "has_tasks: true iff something is pending");
    ASSERT(nt == (any ? mn : UINT64_MAX), "next-task-time: earliest pending time (0 for a run-now task, UINT64_MAX if none)");
}
void h_sched_program(void) {
#ifdef DIRECT_INIT
    /* exactly the state aws_task_scheduler_init produces (checked by the INIT job), written field by field: after the library's
     * AWS_ZERO_STRUCT (memset) CBMC treats the whole struct as a byte array and loses constant propagation of item_size etc. */
    ASSERT(DEFAULT_QUEUE_SIZE == QN, "harness: typed queue array has the default queue size");
    sch.alloc = verif_allocator();
    sch.timed_queue.pred = s_compare_timestamps;
    sch.timed_queue.container.alloc = verif_allocator();
    sch.timed_queue.container.current_size = DEFAULT_QUEUE_SIZE * sizeof(struct aws_task *);
    sch.timed_queue.container.length = 0;
    sch.timed_queue.container.item_size = sizeof(struct aws_task *);
    sch.timed_queue.container.data = qdata;
    sch.timed_queue.backpointers.alloc = NULL; sch.timed_queue.backpointers.current_size = 0; sch.timed_queue.backpointers.length = 0;
    sch.timed_queue.backpointers.item_size = 0; sch.timed_queue.backpointers.data = NULL;
    aws_linked_list_init(&sch.timed_list);
    aws_linked_list_init(&sch.asap_list);
#else
    ASSERT(aws_task_scheduler_init(&sch, verif_allocator()) == AWS_OP_SUCCESS, "init");
    ASSERT(sch.alloc == verif_allocator() && sch.timed_queue.pred == s_compare_timestamps && sch.timed_queue.container.alloc == verif_allocator() &&
           sch.timed_queue.container.current_size == DEFAULT_QUEUE_SIZE * sizeof(struct aws_task *) && sch.timed_queue.container.length == 0 &&
           sch.timed_queue.container.item_size == sizeof(struct aws_task *) && sch.timed_queue.container.data != NULL &&
           sch.timed_queue.backpointers.data == NULL && sch.timed_queue.backpointers.alloc == NULL && sch.timed_queue.backpointers.length == 0 &&
           aws_linked_list_empty(&sch.timed_list) && aws_linked_list_empty(&sch.asap_list), "init produces exactly the state the DIRECT_INIT jobs start from");
#endif
    for (size_t t = 0; t < T; ++t) aws_task_init(task[t], task_fn, (void *)(uintptr_t)(t + 1), "t");
    epoch = 1;
    static const char ops[] = OPS; /* operation kinds and task indices are fixed per job; times are symbolic */
    size_t pc = 0;
    for (unsigned step = 0; step < K; ++step) {
        if (ops[pc] == 0) break;
        unsigned op = ops[pc] == 'N' ? 1 : ops[pc] == 'F' ? 2 : ops[pc] == 'C' ? 3 : 4;
        size_t t = 0;
        pc++;
        if (op != 4) { t = (size_t)(ops[pc] - '0'); pc++; }
        if (op == 1) g_schedule(t, true, 0);
        else if (op == 2) g_schedule(t, false, nd_u64());
        else if (op == 3) {
            ASSUME(pending[t]); /* API precondition: cancel a scheduled task */
            in_cancel = true; cancel_target = t;
            unsigned before = invoked[t];
            aws_task_scheduler_cancel_task(&sch, task[t]);
            in_cancel = false;
            ASSERT(invoked[t] == before + 1 && !pending[t], "cancel: the task's function is invoked exactly once, synchronously");
        } else if (op == 4) {
            run_now = nd_u64();
            epoch++;
            in_run_all = true; ran_timed_in_this_run = false; last_now_order = 0;
            bool was_due[T];
            for (size_t i = 0; i < T; ++i) was_due[i] = pending[i] && (is_now[i] || when[i] <= run_now);
            aws_task_scheduler_run_all(&sch, run_now);
            in_run_all = false;
            for (size_t i = 0; i < T; ++i)
                if (was_due[i]) ASSERT(!pending[i] || sched_epoch[i] == epoch, "run_all: every task due at this time was invoked by this call");
            bool any_due = false;
            for (size_t i = 0; i < T; ++i) if (was_due[i]) any_due = true;
            if (any_due) WITNESS("run_all ran a due task");
        }
        chk_next_time();
        for (size_t i = 0; i < T; ++i) ASSERT(invoked[i] + (pending[i] ? 1 : 0) == scheduled_count[i], "exactly-once: invocations == completed schedulings");
    }
    in_cleanup = true;
    aws_task_scheduler_clean_up(&sch);
    for (size_t i = 0; i < T; ++i) ASSERT(!pending[i] && invoked[i] == scheduled_count[i], "clean_up: every pending task invoked exactly once (CANCELED), nothing left");
    WITNESS("program");
}
