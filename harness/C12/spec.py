# C12 — XML traversal of well-formed documents
SRC = ["source/xml_parser.c", "source/byte_buf.c", "source/array_list.c", "source/common.c", "source/error.c", "source/math.c"]
STUBS = ["base.c", "alloc_direct.c", "memchr.c", "memcmp_loop.c", "mem0.c"]
# '?' = symbolic character from {a,b,c,1}
# Documents are concrete (any symbolic document character made symbolic execution exceed 240 s); the symbolic dimension is the callback's
# action at every node (policy '*': every combination of descend / read body / skip is decided by the solver in one run).
DOCS = ["<a>x</a>", "<a><ab>x</ab></a>", "<r><a><ab>x</ab></a><b>y</b></r>", "<a><a>x</a></a>", "<r><N><N><N>x</N></N></N><after>y</after></r>",
        "<r><N> <N> <N>x</N> </N> </N><after>y</after></r>", "<r><a k=1 j=\\\"2\\\">x</a><ab>y</ab><a>z</a></r>", "<?xml v?><!D><r><a>x</a></r>",
        "<a><b><c>x</c></b></a>", "<r><a></a><b>t</b></r>", "<r><aa><a>x</a></aa><a>y</a></r>"]
THOROUGH = ["<r><a><b><a><b>x</b></a></b></a><c>y</c></r>", "<r><ab><a>1</a></ab><a><ab>2</ab></a><abc>3</abc></r>"]


def spec(tier):
    units, jobs = {}, []
    docs = DOCS + (THOROUGH if tier != "quick" else [])
    i = 0
    for d in docs:
        for pol in "*T":
            for md in ((0, 2) if d == "<a><b><c>x</c></b></a>" else (0,)):
                u = "x%d" % i
                i += 1
                units[u] = dict(harness=["C12/h_xmlwf.c"], sources=SRC, stubs=STUBS, defines={"DOC": '"%s"' % d, "POLICY": "'%s'" % pol, "MAXDEPTH": md})
                jobs.append(dict(unit=u, entry="h_xml_wellformed", unwind=len(d) + 4, unwindset={"aws_byte_buf_append": 4}, timeout=240 if tier == "quick" else 2400,
                                 bounds="document shape %s ('?' = symbolic character from {a,b,c,1}), policy %s, max_depth %d" % (d, pol, md),
                                 what="traversal of a well-formed document equals an independent reference parse (policy T descend / B read bodies / S skip)"))
    meta = dict(functions_encoded=["all of source/xml_parser.c"], bounds="document shapes from the list, names/text symbolic over a 4-letter alphabet",
                stubs=["base.c (no logger)", "alloc_direct.c", "memchr.c", "memcmp_loop.c", "mem0.c"],
                out=["document shapes outside the list; more than 2 attributes; name/attribute-count limits (256 / 10)", "self-closing elements (outside the stated dialect)"],
                assumptions=["reference parser in the harness defines the expected element list for the dialect: explicit start/end tags, names end at ' ' or '>'"])
    return dict(units=units, jobs=jobs, meta=meta)
