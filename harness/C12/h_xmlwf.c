/* C12 — traversal of WELL-FORMED documents.  The document is a constant shape per job (DOC), in which
 * every '?' is replaced by a symbolic lower-case letter / digit (names, attribute values, text), so
 * names may repeat, nest inside themselves or extend one another depending on the solver's choice.
 * An independent mini parser in the harness computes the expected element list (document order,
 * depth, name, body extent); the callback's observations are compared with it under the per-job
 * action policy POLICY: 'T' descend into every element that has children and read the body of leaves,
 * 'B' read the body of every depth-1 element, 'S' skip every depth-1 element. */
#include "verif.h"
#include <aws/common/xml_parser.h>
#include <aws/common/byte_buf.h>
#include <aws/common/error.h>
#include <string.h>
#ifndef DOC
#    define DOC "<a><ab>x</ab></a>"
#endif
#ifndef POLICY
#    define POLICY 'T'
#endif
#ifndef MAXDEPTH
#    define MAXDEPTH 0
#endif
enum { DLEN = sizeof(DOC) - 1, MAXEL = 8 };
static uint8_t doc[DLEN + 1];
struct el { size_t depth, name_off, name_len, body_off, body_len, nattr; bool has_children; };
static struct el exp_el[MAXEL];
static size_t n_exp;
static size_t max_nesting;
/* reference: elements with explicit start and end tags; names end at ' ' or '>' */
static void ref_parse(void) {
    size_t stack[MAXEL], sp = 0, i = 0;
    n_exp = 0; max_nesting = 0;
    while (i < DLEN) {
        if (doc[i] != '<') { i++; continue; }
        if (doc[i + 1] == '?' || doc[i + 1] == '!') { while (doc[i] != '>') i++; i++; continue; }
        if (doc[i + 1] == '/') { /* end tag closes the innermost open element */
            struct el *e = &exp_el[stack[--sp]];
            e->body_len = i - e->body_off;
            while (doc[i] != '>') i++;
            i++;
            continue;
        }
        struct el *e = &exp_el[n_exp];
        if (sp > 0) exp_el[stack[sp - 1]].has_children = true;
        e->depth = sp + 1; e->name_off = i + 1; e->has_children = false; e->nattr = 0;
        size_t j = i + 1;
        while (doc[j] != ' ' && doc[j] != '>') j++;
        e->name_len = j - (i + 1);
        while (doc[j] != '>') { if (doc[j] == '=') e->nattr++; j++; }
        e->body_off = j + 1;
        stack[sp++] = n_exp++;
        if (sp > max_nesting) max_nesting = sp;
        i = j + 1;
    }
}
static size_t seen; /* index into exp_el of the next expected report */
static size_t depth_now;
static int on_node(struct aws_xml_node *node, void *ud) {
    (void)ud;
    /* find the next expected element the policy lets the callback see (children of skipped/body-read elements are never reported) */
    ASSERT(seen < n_exp, "xml: no element is reported that the document does not contain / none is reported twice");
    const struct el *e = &exp_el[seen];
    struct aws_byte_cursor nm = aws_xml_node_get_name(node);
    ASSERT(e->depth == depth_now + 1, "xml: element reported at the right depth, in document order");
    ASSERT(nm.ptr == doc + e->name_off && nm.len == e->name_len, "xml: exact element name");
    ASSERT(aws_xml_node_get_num_attributes(node) == e->nattr, "xml: attribute count");
    if (e->nattr) {
        struct aws_xml_attribute a = aws_xml_node_get_attribute(node, 0);
        ASSERT(a.name.ptr == doc + e->name_off + e->name_len + 1 && a.value.len >= 1, "xml: first attribute name/value views");
    }
    /* POLICY '*': the action at every node is chosen by the solver (all combinations of descend / read body / skip) */
    char pol = POLICY;
    if (pol == '*') { unsigned a = nd_u8() % 3; pol = a == 0 ? 'T' : a == 1 ? 'B' : 'S'; }
    bool descend = pol == 'T' && e->has_children;
    size_t me = seen;
    seen++;
    if (descend) {
        depth_now++;
        int rc = aws_xml_node_traverse(node, on_node, NULL);
        depth_now--;
        return rc;
    }
    /* not descending: skip all expected descendants of this element */
    while (seen < n_exp && exp_el[seen].depth > e->depth) seen++;
    if (pol == 'S') return AWS_OP_SUCCESS; /* skipped: the parser must step over the element without disturbing its siblings */
    struct aws_byte_cursor body = {0};
    int rc = aws_xml_node_as_body(node, &body);
    if (rc == AWS_OP_SUCCESS) ASSERT(body.ptr == doc + exp_el[me].body_off && body.len == exp_el[me].body_len, "xml: body is exactly the text between the element's own start and end tag");
    return rc;
}
void h_xml_wellformed(void) {
    static const char shape[] = DOC;
    uint8_t var[8];
    for (size_t v = 0; v < 8; ++v) { var[v] = nd_u8(); ASSUME(var[v] == 'a' || var[v] == 'b'); } /* two-letter alphabet: names repeat, nest inside themselves and extend one another */
    for (size_t i = 0; i < DLEN; ++i) {
        if (shape[i] == '?') { uint8_t c = nd_u8(); ASSUME((c >= 'a' && c <= 'c') || c == '1'); doc[i] = c; } /* free text / value character */
        else if (shape[i] >= 'A' && shape[i] <= 'H') doc[i] = var[shape[i] - 'A']; /* name variable: same letter = same symbolic character, so the tags stay matched */
        else doc[i] = (uint8_t)shape[i];
    }
    doc[DLEN] = 0;
    ref_parse();
    struct aws_xml_parser_options opt = {.doc = {.len = DLEN, .ptr = doc}, .max_depth = MAXDEPTH, .on_root_encountered = on_node, .user_data = NULL};
    int rc = aws_xml_parse(verif_allocator(), &opt);
    size_t limit = MAXDEPTH ? MAXDEPTH : 20;
    if (POLICY == '*' && max_nesting > limit) return; /* whether the limit is hit depends on the solver's choices: covered by the 'T' jobs */
    if (POLICY == 'T' && max_nesting > limit) {
        ASSERT(rc == AWS_OP_ERR && aws_last_error() == AWS_ERROR_INVALID_XML, "xml: a document nested deeper than the limit is rejected");
        WITNESS("xml depth limit");
        return;
    }
    ASSERT(rc == AWS_OP_SUCCESS, "xml: a well-formed document within the limits is accepted");
    ASSERT(seen == n_exp, "xml: every element the policy reaches is reported exactly once");
    WITNESS("xml well-formed traversal");
}
