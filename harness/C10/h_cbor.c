/* C10 — CBOR encoder/decoder round trip against an independent RFC 8949 head reader,
 * plus (for C04) the decoder on arbitrary bytes. */
#include "verif.h"
#include <../source/cbor.c> /* part of this TU so that encoder/decoder objects can come from typed pools */
#include <aws/common/byte_buf.h>
#include <aws/common/error.h>
#include <math.h>
#include <string.h>
#ifndef L
#    define L 2
#endif
#ifndef N
#    define N 4
#endif
static struct aws_cbor_encoder enc_pool[2];
static struct aws_cbor_decoder dec_pool[2];
static size_t enc_n, dec_n;
void *verif_typed_calloc(size_t size) {
    if (size == sizeof(struct aws_cbor_encoder) && enc_n < 2) { enc_pool[enc_n] = (struct aws_cbor_encoder){0}; return &enc_pool[enc_n++]; }
    if (size == sizeof(struct aws_cbor_decoder) && dec_n < 2) { dec_pool[dec_n] = (struct aws_cbor_decoder){0}; return &dec_pool[dec_n++]; }
    return NULL;
}
bool verif_typed_release(void *p) { return p == &enc_pool[0] || p == &enc_pool[1] || p == &dec_pool[0] || p == &dec_pool[1]; }
#ifndef VERIF_NATIVE
int __builtin_isfinite(double x) { return __CPROVER_isfinited(x); }
/* libm: only reachable when decoding a half-precision float (the encoder never emits one) */
double ldexp(double x, int e) { (void)x; (void)e; return nd_double(); }
#endif

/* independent head reader: major type, argument, head length; returns false if malformed/truncated */
static bool ref_head(const uint8_t *p, size_t n, unsigned *major, uint64_t *arg, size_t *hl, unsigned *ai) {
    if (n < 1) return false;
    *major = p[0] >> 5;
    *ai = p[0] & 31;
    if (*ai < 24) { *arg = *ai; *hl = 1; return true; }
    size_t w = *ai == 24 ? 1 : *ai == 25 ? 2 : *ai == 26 ? 4 : *ai == 27 ? 8 : 0;
    if (*ai == 31) { *arg = 0; *hl = 1; return true; }
    if (w == 0 || n < 1 + w) return false;
    uint64_t v = 0;
    for (size_t i = 0; i < 8; ++i) if (i < w) v = v << 8 | p[1 + i];
    *arg = v; *hl = 1 + w;
    return true;
}
static size_t shortest_head(uint64_t v) { return v < 24 ? 1 : v <= 0xFF ? 2 : v <= 0xFFFF ? 3 : v <= 0xFFFFFFFFu ? 5 : 9; }

void h_cbor_ints(void) { /* uint / negint / tag / array / map heads, full 64-bit range */
    struct aws_cbor_encoder *e = aws_cbor_encoder_new(verif_allocator());
    uint64_t v = nd_u64();
    unsigned kind = nd_u8();
    ASSUME(kind < 5);
    switch (kind) {
        case 0: aws_cbor_encoder_write_uint(e, v); break;
        case 1: aws_cbor_encoder_write_negint(e, v); break;
        case 2: aws_cbor_encoder_write_tag(e, v); break;
        case 3: aws_cbor_encoder_write_array_start(e, v); break;
        default: aws_cbor_encoder_write_map_start(e, v); break;
    }
    struct aws_byte_cursor d = aws_cbor_encoder_get_encoded_data(e);
    static const unsigned majors[5] = {0, 1, 6, 4, 5};
    unsigned mj, ai; uint64_t arg; size_t hl;
    ASSERT(ref_head(d.ptr, d.len, &mj, &arg, &hl, &ai), "cbor: encoded integer head is well-formed (independent reader)");
    ASSERT(mj == majors[kind] && arg == v && hl == d.len, "cbor: independent reader sees the same major type and value, nothing else written");
    ASSERT(d.len == shortest_head(v), "cbor: integers use the shortest head");
    struct aws_cbor_decoder *dec = aws_cbor_decoder_new(verif_allocator(), d);
    enum aws_cbor_type t;
    static const enum aws_cbor_type types[5] = {AWS_CBOR_TYPE_UINT, AWS_CBOR_TYPE_NEGINT, AWS_CBOR_TYPE_TAG, AWS_CBOR_TYPE_ARRAY_START, AWS_CBOR_TYPE_MAP_START};
    ASSERT(aws_cbor_decoder_peek_type(dec, &t) == AWS_OP_SUCCESS && t == types[kind], "cbor: decoder reports the written item type");
    uint64_t out = ~v;
    int rc = kind == 0 ? aws_cbor_decoder_pop_next_unsigned_int_val(dec, &out) : kind == 1 ? aws_cbor_decoder_pop_next_negative_int_val(dec, &out)
           : kind == 2 ? aws_cbor_decoder_pop_next_tag_val(dec, &out) : kind == 3 ? aws_cbor_decoder_pop_next_array_start(dec, &out) : aws_cbor_decoder_pop_next_map_start(dec, &out);
    ASSERT(rc == AWS_OP_SUCCESS && out == v, "cbor: decoder returns the written value");
    ASSERT(aws_cbor_decoder_get_remaining_length(dec) == 0, "cbor: decoding consumes exactly the encoded bytes");
    if (v == 0xFFFFFFFFull + 1) WITNESS("cbor int at the 32/64-bit head boundary");
    if (v == 23 || v == 24) WITNESS("cbor int at the 1/2-byte head boundary");
    WITNESS("cbor ints");
}

void h_cbor_float(void) { /* every double: smallest lossless form, value preserved */
    struct aws_cbor_encoder *e = aws_cbor_encoder_new(verif_allocator());
    double x = nd_double();
    aws_cbor_encoder_write_float(e, x);
    struct aws_byte_cursor d = aws_cbor_encoder_get_encoded_data(e);
    unsigned mj, ai; uint64_t arg; size_t hl;
    ASSERT(ref_head(d.ptr, d.len, &mj, &arg, &hl, &ai) && hl == d.len, "cbor float: exactly one well-formed head written");
    bool integral = x == x && x >= -9223372036854775808.0 && x < 9223372036854775808.0 && x == (double)(int64_t)x;
    bool single_ok = (double)(float)x == x || x != x;
    if (integral) {
        ASSERT(mj == 0 || mj == 1, "cbor float: an integral value in int64 range is written as an integer");
        int64_t iv = (int64_t)x;
        ASSERT(mj == (iv < 0 ? 1u : 0u) && arg == (iv < 0 ? (uint64_t)(-1 - iv) : (uint64_t)iv), "cbor float: integer form has the same numeric value");
        ASSERT(d.len == shortest_head(arg), "cbor float: integer form uses the shortest head");
        if (iv < -1000) WITNESS("cbor float stored as negative integer");
    } else if (single_ok) {
        ASSERT(mj == 7 && ai == 26, "cbor float: a value exactly representable as binary32 is written as single (never half, never double)");
        union { uint32_t u; float f; } s; s.u = (uint32_t)arg;
        ASSERT((double)s.f == x || (x != x && s.f != s.f), "cbor float: single form has the same numeric value");
        if (x != x) WITNESS("cbor float NaN");
        else WITNESS("cbor float stored as single");
    } else {
        ASSERT(mj == 7 && ai == 27, "cbor float: otherwise written as double");
        union { uint64_t u; double f; } s; s.u = arg;
        ASSERT(s.f == x, "cbor float: double form is bit-exact");
        WITNESS("cbor float stored as double");
    }
    struct aws_cbor_decoder *dec = aws_cbor_decoder_new(verif_allocator(), d);
    enum aws_cbor_type t;
    ASSERT(aws_cbor_decoder_peek_type(dec, &t) == AWS_OP_SUCCESS, "cbor float: decodes");
    if (t == AWS_CBOR_TYPE_FLOAT) {
        double out = 0;
        ASSERT(aws_cbor_decoder_pop_next_float_val(dec, &out) == AWS_OP_SUCCESS && (out == x || (x != x && out != out)), "cbor float: decoder returns the same numeric value");
    } else if (t == AWS_CBOR_TYPE_UINT) {
        uint64_t out = 0;
        ASSERT(aws_cbor_decoder_pop_next_unsigned_int_val(dec, &out) == AWS_OP_SUCCESS && out <= (uint64_t)INT64_MAX && integral && (int64_t)x == (int64_t)out, "cbor float: decoded unsigned equals the value");
    } else {
        uint64_t out = 0;
        ASSERT(t == AWS_CBOR_TYPE_NEGINT && aws_cbor_decoder_pop_next_negative_int_val(dec, &out) == AWS_OP_SUCCESS && out <= (uint64_t)INT64_MAX && integral && (int64_t)x == -1 - (int64_t)out, "cbor float: decoded negative equals the value");
    }
    ASSERT(aws_cbor_decoder_get_remaining_length(dec) == 0, "cbor float: consumes exactly the encoded bytes");
}

void h_cbor_strings(void) { /* byte/text strings of L bytes (L constant per job: crosses the 256-byte initial buffer) */
    struct aws_cbor_encoder *e = aws_cbor_encoder_new(verif_allocator());
    uint8_t *s = verif_malloc(L ? L : 1);
    size_t k = nd_size();
    ASSUME(k < (L ? L : 1));
    uint8_t probe = nd_u8();
    if (L) s[k] = probe; /* every other byte stays symbolic (uninitialised heap) */
    bool text = nd_bool();
    uint64_t before = nd_u64();
    ASSUME(before < 24); /* 1-byte head: all offsets in the encoded buffer stay constant (head widths are h_cbor_ints' job) */
    aws_cbor_encoder_write_uint(e, before);
    struct aws_byte_cursor c = {.len = L, .ptr = L ? s : NULL};
    if (text) aws_cbor_encoder_write_text(e, c); else aws_cbor_encoder_write_bytes(e, c);
    aws_cbor_encoder_write_bool(e, true);
    struct aws_byte_cursor d = aws_cbor_encoder_get_encoded_data(e);
    ASSERT(d.len == shortest_head(before) + shortest_head(L) + L + 1, "cbor string: head + content, nothing else");
    struct aws_cbor_decoder *dec = aws_cbor_decoder_new(verif_allocator(), d);
    uint64_t b2 = 0; bool tr = false;
    struct aws_byte_cursor out = {0};
    ASSERT(aws_cbor_decoder_pop_next_unsigned_int_val(dec, &b2) == AWS_OP_SUCCESS && b2 == before, "cbor string: preceding item intact");
    int rc = text ? aws_cbor_decoder_pop_next_text_val(dec, &out) : aws_cbor_decoder_pop_next_bytes_val(dec, &out);
    ASSERT(rc == AWS_OP_SUCCESS && out.len == L, "cbor string: decoded length");
    if (L) {
        ASSERT(out.ptr >= d.ptr && out.ptr + L <= d.ptr + d.len, "cbor string: decoded view lies inside the encoded data");
        ASSERT(out.ptr[k] == probe, "cbor string: content preserved (arbitrary position)");
    }
    ASSERT(aws_cbor_decoder_pop_next_boolean_val(dec, &tr) == AWS_OP_SUCCESS && tr, "cbor string: following item intact");
    ASSERT(aws_cbor_decoder_get_remaining_length(dec) == 0, "cbor string: consumes exactly the encoded bytes");
    WITNESS("cbor strings");
}

void h_cbor_simple_and_sequence(void) { /* sequence of 3 items of symbolic kinds incl. simple values and indefinite markers */
    struct aws_cbor_encoder *e = aws_cbor_encoder_new(verif_allocator());
    unsigned kind[3]; uint64_t val[3];
    for (int i = 0; i < 3; ++i) {
        kind[i] = nd_u8(); val[i] = nd_u64();
        ASSUME(kind[i] < 11);
        ASSUME(val[i] < 24); /* every item is one byte: offsets constant; value ranges are h_cbor_ints' job */
        switch (kind[i]) {
            case 0: aws_cbor_encoder_write_uint(e, val[i]); break;
            case 1: aws_cbor_encoder_write_negint(e, val[i]); break;
            case 2: aws_cbor_encoder_write_bool(e, val[i] & 1); break;
            case 3: aws_cbor_encoder_write_null(e); break;
            case 4: aws_cbor_encoder_write_undefined(e); break;
            case 5: aws_cbor_encoder_write_break(e); break;
            case 6: aws_cbor_encoder_write_indef_bytes_start(e); break;
            case 7: aws_cbor_encoder_write_indef_text_start(e); break;
            case 8: aws_cbor_encoder_write_indef_array_start(e); break;
            case 9: aws_cbor_encoder_write_indef_map_start(e); break;
            default: aws_cbor_encoder_write_tag(e, val[i]); break;
        }
    }
    struct aws_byte_cursor d = aws_cbor_encoder_get_encoded_data(e);
    struct aws_cbor_decoder *dec = aws_cbor_decoder_new(verif_allocator(), d);
    static const enum aws_cbor_type types[11] = {AWS_CBOR_TYPE_UINT, AWS_CBOR_TYPE_NEGINT, AWS_CBOR_TYPE_BOOL, AWS_CBOR_TYPE_NULL, AWS_CBOR_TYPE_UNDEFINED, AWS_CBOR_TYPE_BREAK,
        AWS_CBOR_TYPE_INDEF_BYTES_START, AWS_CBOR_TYPE_INDEF_TEXT_START, AWS_CBOR_TYPE_INDEF_ARRAY_START, AWS_CBOR_TYPE_INDEF_MAP_START, AWS_CBOR_TYPE_TAG};
    for (int i = 0; i < 3; ++i) {
        enum aws_cbor_type t;
        ASSERT(aws_cbor_decoder_peek_type(dec, &t) == AWS_OP_SUCCESS && t == types[kind[i]], "cbor sequence: same item type, in order");
        uint64_t o = 0; bool b = false;
        if (kind[i] == 0) ASSERT(aws_cbor_decoder_pop_next_unsigned_int_val(dec, &o) == AWS_OP_SUCCESS && o == val[i], "cbor sequence: uint value");
        else if (kind[i] == 1) ASSERT(aws_cbor_decoder_pop_next_negative_int_val(dec, &o) == AWS_OP_SUCCESS && o == val[i], "cbor sequence: negint value");
        else if (kind[i] == 2) ASSERT(aws_cbor_decoder_pop_next_boolean_val(dec, &b) == AWS_OP_SUCCESS && b == (bool)(val[i] & 1), "cbor sequence: bool value");
        else if (kind[i] == 10) ASSERT(aws_cbor_decoder_pop_next_tag_val(dec, &o) == AWS_OP_SUCCESS && o == val[i], "cbor sequence: tag value");
        else ASSERT(aws_cbor_decoder_consume_next_single_element(dec) == AWS_OP_SUCCESS, "cbor sequence: simple/marker consumed");
    }
    ASSERT(aws_cbor_decoder_get_remaining_length(dec) == 0, "cbor sequence: consumes exactly the encoded bytes");
    WITNESS("cbor sequence");
}

/* skipping a whole (nested) item lands exactly on the following item */
static void emit_item(struct aws_cbor_encoder *e, unsigned depth) {
    unsigned k = nd_u8();
    ASSUME(k < (depth ? 7u : 2u));
    switch (k) {
        case 0: aws_cbor_encoder_write_uint(e, nd_u8() % 24); break;
        case 1: aws_cbor_encoder_write_text(e, aws_byte_cursor_from_c_str("ab")); break;
        case 2: aws_cbor_encoder_write_tag(e, nd_u8() % 24); emit_item(e, depth - 1); break;
        case 3: { unsigned n = nd_u8(); ASSUME(n <= 2); aws_cbor_encoder_write_array_start(e, n); for (unsigned i = 0; i < 2; ++i) if (i < n) emit_item(e, depth - 1); break; }
        case 4: { unsigned n = nd_u8(); ASSUME(n <= 1); aws_cbor_encoder_write_map_start(e, n); if (n) { emit_item(e, depth - 1); emit_item(e, depth - 1); } break; }
        case 5: { unsigned n = nd_u8(); ASSUME(n <= 2); aws_cbor_encoder_write_indef_array_start(e); for (unsigned i = 0; i < 2; ++i) if (i < n) emit_item(e, depth - 1); aws_cbor_encoder_write_break(e); break; }
        default: { unsigned n = nd_u8(); ASSUME(n <= 1); aws_cbor_encoder_write_indef_bytes_start(e); if (n) aws_cbor_encoder_write_bytes(e, aws_byte_cursor_from_c_str("x")); aws_cbor_encoder_write_break(e); break; }
    }
}
#ifndef DEPTH
#    define DEPTH 2
#endif
void h_cbor_skip(void) {
    struct aws_cbor_encoder *e = aws_cbor_encoder_new(verif_allocator());
    emit_item(e, DEPTH);
    size_t item_len = aws_cbor_encoder_get_encoded_data(e).len;
    uint64_t trailer = nd_u8() % 24;
    aws_cbor_encoder_write_uint(e, trailer);
    struct aws_byte_cursor d = aws_cbor_encoder_get_encoded_data(e);
    struct aws_cbor_decoder *dec = aws_cbor_decoder_new(verif_allocator(), d);
    ASSERT(aws_cbor_decoder_consume_next_whole_data_item(dec) == AWS_OP_SUCCESS, "cbor skip: a well-formed item can be skipped");
    ASSERT(aws_cbor_decoder_get_remaining_length(dec) == d.len - item_len, "cbor skip: advances past exactly that item");
    uint64_t o = ~trailer;
    ASSERT(aws_cbor_decoder_pop_next_unsigned_int_val(dec, &o) == AWS_OP_SUCCESS && o == trailer, "cbor skip: the following item is intact");
    if (item_len >= 6) WITNESS("cbor skip nested item");
    WITNESS("cbor skip");
}

/* independent reference: length of the well-formed data item starting at p (0 = malformed/truncated/too deep) */
static size_t ref_item_len(const uint8_t *p, size_t n, unsigned depth) {
    unsigned mj, ai; uint64_t arg; size_t hl;
    if (!ref_head(p, n, &mj, &arg, &hl, &ai)) return 0;
    if (ai >= 28 && ai <= 30) return 0;
    if (mj == 0 || mj == 1) return ai == 31 ? 0 : hl;
    if (mj == 7) return (ai == 31 || (ai == 24 && 0)) ? 0 : hl; /* break alone is not an item */
    if (mj == 2 || mj == 3) {
        if (ai != 31) return arg <= n - hl ? hl + (size_t)arg : 0;
        size_t o = hl; /* indefinite string: definite chunks of the same major type until break */
        for (unsigned i = 0; i < N; ++i) {
            if (o >= n) return 0;
            if (p[o] == 0xFF) return o + 1;
            if ((p[o] >> 5) != mj || (p[o] & 31) == 31) return 0;
            size_t l = depth ? ref_item_len(p + o, n - o, depth - 1) : 0;
            if (!l) return 0;
            o += l;
        }
        return 0;
    }
    if (!depth) return 0;
    if (mj == 6) { if (ai == 31) return 0; size_t l = ref_item_len(p + hl, n - hl, depth - 1); return l ? hl + l : 0; }
    /* arrays (4) and maps (5) */
    size_t o = hl;
    if (ai == 31) {
        for (unsigned i = 0; i < N; ++i) {
            if (o >= n) return 0;
            if (p[o] == 0xFF) return (mj == 5 && (i & 1)) ? 0 : o + 1;
            size_t l = ref_item_len(p + o, n - o, depth - 1);
            if (!l) return 0;
            o += l;
        }
        return 0;
    }
    uint64_t cnt = mj == 5 ? (arg > N ? N + 1 : arg * 2) : arg;
    if (cnt > N) return 0;
    for (unsigned i = 0; i < N; ++i) if (i < cnt) { if (o >= n) return 0; size_t l = ref_item_len(p + o, n - o, depth - 1); if (!l) return 0; o += l; }
    return o;
}
void h_cbor_skip_arbitrary(void) { /* skipping on ARBITRARY bytes agrees with the independent reference on every well-formed item */
    uint8_t *t = verif_malloc(N);
    ND_FILL(t, N, N);
    struct aws_byte_cursor src = {.len = N, .ptr = t};
    size_t rl = ref_item_len(t, N, 2);
    ASSUME(t[0] >> 5 != 7 || (t[0] & 31) < 24 || (t[0] & 31) > 27); /* floats/simple-with-payload: lengths are the head reader's job (h_cbor_float) */
    struct aws_cbor_decoder *dec = aws_cbor_decoder_new(verif_allocator(), src);
    int rc = aws_cbor_decoder_consume_next_whole_data_item(dec);
    if (rl) {
        ASSERT(rc == AWS_OP_SUCCESS, "cbor skip: every well-formed item (independent reference) can be skipped");
        ASSERT(aws_cbor_decoder_get_remaining_length(dec) == N - rl, "cbor skip: advances past exactly that item, however it nests");
        if (rl == N && N >= 4 && (t[0] >> 5) >= 4) WITNESS("cbor skip: nested container spanning the whole input");
        if (rl >= 2 && t[0] == 0x9F && t[1] == 0xFF) WITNESS("cbor skip: empty indefinite array");
    }
    WITNESS("cbor skip arbitrary");
}

/* ---- C04: decoder on arbitrary bytes ---- */
static const uint8_t *in_base;
static void view_inside(struct aws_byte_cursor c) {
    if (c.len == 0) return;
    ASSERT(c.ptr >= in_base && (size_t)(c.ptr - in_base) <= N && c.len <= N - (size_t)(c.ptr - in_base), "cbor: every view handed back lies inside the input");
}
void h_cbor_decode_arbitrary(void) {
    uint8_t *t = verif_malloc(N ? N : 1);
    ND_FILL(t, N, N);
    in_base = t;
    struct aws_byte_cursor src = {.len = N, .ptr = t};
    struct aws_cbor_decoder *dec = aws_cbor_decoder_new(verif_allocator(), src);
    bool whole = nd_bool();
    for (size_t it = 0; it < N + 1; ++it) {
        size_t before = aws_cbor_decoder_get_remaining_length(dec);
        ASSERT(before <= N, "cbor: remaining length never exceeds the input");
        if (before == 0) break;
        enum aws_cbor_type ty = AWS_CBOR_TYPE_UNKNOWN;
        int rc = whole ? aws_cbor_decoder_consume_next_whole_data_item(dec) : aws_cbor_decoder_peek_type(dec, &ty);
        if (rc != AWS_OP_SUCCESS) { ASSERT(aws_last_error() == AWS_ERROR_INVALID_CBOR || aws_last_error() == AWS_ERROR_OVERFLOW_DETECTED, "cbor: failure reports a registered error"); WITNESS("cbor arbitrary: rejected"); break; }
        if (!whole) {
            struct aws_byte_cursor c = {0}; uint64_t u; double f; bool b;
            switch (ty) {
                case AWS_CBOR_TYPE_BYTES: ASSERT(aws_cbor_decoder_pop_next_bytes_val(dec, &c) == AWS_OP_SUCCESS, "pop bytes"); view_inside(c); break;
                case AWS_CBOR_TYPE_TEXT: ASSERT(aws_cbor_decoder_pop_next_text_val(dec, &c) == AWS_OP_SUCCESS, "pop text"); view_inside(c); if (c.len >= 2) WITNESS("cbor arbitrary: text view"); break;
                case AWS_CBOR_TYPE_UINT: ASSERT(aws_cbor_decoder_pop_next_unsigned_int_val(dec, &u) == AWS_OP_SUCCESS, "pop uint"); break;
                case AWS_CBOR_TYPE_NEGINT: ASSERT(aws_cbor_decoder_pop_next_negative_int_val(dec, &u) == AWS_OP_SUCCESS, "pop negint"); break;
                case AWS_CBOR_TYPE_FLOAT: ASSERT(aws_cbor_decoder_pop_next_float_val(dec, &f) == AWS_OP_SUCCESS, "pop float"); break;
                case AWS_CBOR_TYPE_BOOL: ASSERT(aws_cbor_decoder_pop_next_boolean_val(dec, &b) == AWS_OP_SUCCESS, "pop bool"); break;
                case AWS_CBOR_TYPE_TAG: ASSERT(aws_cbor_decoder_pop_next_tag_val(dec, &u) == AWS_OP_SUCCESS, "pop tag"); break;
                case AWS_CBOR_TYPE_ARRAY_START: ASSERT(aws_cbor_decoder_pop_next_array_start(dec, &u) == AWS_OP_SUCCESS, "pop array"); break;
                case AWS_CBOR_TYPE_MAP_START: ASSERT(aws_cbor_decoder_pop_next_map_start(dec, &u) == AWS_OP_SUCCESS, "pop map"); break;
                default: ASSERT(aws_cbor_decoder_consume_next_single_element(dec) == AWS_OP_SUCCESS, "consume marker"); break;
            }
        }
        ASSERT(aws_cbor_decoder_get_remaining_length(dec) < before, "cbor: every successful step consumes input (termination)");
    }
    aws_cbor_decoder_destroy(dec);
    WITNESS("cbor arbitrary");
}

/* ---- C04: ONE decoder step on arbitrary bytes (a single cbor_stream_decode call fits; the loop above does not) ----
 * N arbitrary bytes in an object of exactly N bytes: peek the first item and pop it.  Decides: no access outside the input (a
 * string head announcing more bytes than there are -- including lengths near 2^64 -- must be refused), failure is reported with a
 * registered error, a byte/text view lies inside the input and has exactly the announced length, the item consumes head + payload. */
void h_cbor_decode_first(void) {
    uint8_t *t = verif_malloc(N ? N : 1);
    ND_FILL(t, N, N);
    in_base = t;
    struct aws_byte_cursor src = {.len = N, .ptr = t};
    struct aws_cbor_decoder *dec = aws_cbor_decoder_new(verif_allocator(), src);
    enum aws_cbor_type ty = AWS_CBOR_TYPE_UNKNOWN;
    unsigned mj, ai; uint64_t arg; size_t hl;
    bool head_ok = ref_head(t, N, &mj, &arg, &hl, &ai);
    int rc = aws_cbor_decoder_peek_type(dec, &ty);
    if (rc != AWS_OP_SUCCESS) {
        ASSERT(aws_last_error() == AWS_ERROR_INVALID_CBOR || aws_last_error() == AWS_ERROR_OVERFLOW_DETECTED, "cbor first item: failure reports a registered error");
        if (head_ok && (mj == 2 || mj == 3) && ai != 31) ASSERT(arg > N - hl, "cbor first item: a definite string is refused only if its payload is not all there");
        if (head_ok && (mj == 2 || mj == 3) && ai == 27 && arg > (uint64_t)-9) WITNESS("cbor first item: string length near 2^64 refused");
        WITNESS("cbor first item: rejected");
    } else if (ty == AWS_CBOR_TYPE_BYTES || ty == AWS_CBOR_TYPE_TEXT) {
        struct aws_byte_cursor c = {0};
        ASSERT((ty == AWS_CBOR_TYPE_BYTES ? aws_cbor_decoder_pop_next_bytes_val(dec, &c) : aws_cbor_decoder_pop_next_text_val(dec, &c)) == AWS_OP_SUCCESS, "cbor first item: pop string");
        ASSERT(head_ok && mj == (ty == AWS_CBOR_TYPE_BYTES ? 2u : 3u), "cbor first item: string type matches the head");
        ASSERT(arg <= N - hl && c.len == arg, "cbor first item: string view has the announced length, which fits the input");
        if (c.len) ASSERT(c.ptr == t + hl, "cbor first item: string view starts right after the head");
        view_inside(c);
        ASSERT(aws_cbor_decoder_get_remaining_length(dec) == N - hl - (size_t)arg, "cbor first item: consumes head + payload");
        if (c.len >= 2) WITNESS("cbor first item: string view");
    } else {
        ASSERT(head_ok, "cbor first item: accepted item has a well-formed head");
        ASSERT(aws_cbor_decoder_consume_next_single_element(dec) == AWS_OP_SUCCESS, "cbor first item: consume");
        ASSERT(aws_cbor_decoder_get_remaining_length(dec) < N, "cbor first item: consumes input");
        WITNESS("cbor first item: non-string");
    }
    aws_cbor_decoder_destroy(dec);
}
