# C10 — CBOR
SRC = ["source/byte_buf.c", "source/common.c", "source/error.c", "source/math.c",
       "source/external/libcbor/cbor/encoding.c", "source/external/libcbor/cbor/streaming.c",
       "source/external/libcbor/cbor/internal/encoders.c", "source/external/libcbor/cbor/internal/loaders.c"]
STUBS = ["base.c", "alloc_direct.c", "mem0.c"]


def cbor_fp_restrictions():
    """cbor_stream_decode invokes its callbacks through a struct of function pointers: 47 call sites, up to 12 type-compatible candidates
    each for CBMC.  The restriction maps every call site (in source order, macros expanded with gcc -E on /repo's current streaming.c) to the
    one function that source/cbor.c installs in s_callbacks for that field; any other target is turned into a failing assertion."""
    import re, subprocess
    repo = "/repo"
    pre = subprocess.run(["gcc", "-E", "-P", "-I%s/source/external/libcbor" % repo, "-I%s/include" % repo, "-I%s/source/external/libcbor/cbor" % repo,
                          "%s/source/external/libcbor/cbor/streaming.c" % repo], capture_output=True, text=True).stdout
    body = pre[pre.index("cbor_stream_decode("):]
    fields = re.findall(r"callbacks->(\w+)\s*\(", body)
    cb = open("%s/source/cbor.c" % repo).read()
    init = cb[cb.index("static struct cbor_callbacks s_callbacks"):]
    init = init[:init.index("};")]
    table = dict(re.findall(r"\.(\w+)\s*=\s*(\w+)", init))
    return {"cbor_stream_decode.function_pointer_call.%d" % (i + 1): [table[f]] for i, f in enumerate(fields) if f in table}


def mkunit(units, **d):
    name = "cb_" + "_".join("%s%s" % (k, v) for k, v in sorted(d.items()))
    d = dict(d); d["VERIF_TYPED_CALLOC"] = None
    units[name] = dict(harness=["C10/h_cbor.c"], sources=SRC, stubs=STUBS, defines=d, fp_restrict=FPR)
    return name


FPR = {}


def spec(tier):
    global FPR
    FPR = cbor_fp_restrictions()
    units, jobs = {}, []
    quick = tier == "quick"
    u = mkunit(units, L=2)
    jobs.append(dict(unit=u, entry="h_cbor_ints", unwind=10, bounds="value unconstrained 64-bit; uint/negint/tag/array/map heads", what="round trip, shortest head, independent reader agrees"))
    jobs.append(dict(unit=u, entry="h_cbor_float", unwind=10, timeout=240 if quick else 2400, bounds="every IEEE-754 double (bit pattern unconstrained)", what="smallest lossless form (int / single / double), value preserved, NaN/inf"))
    for n in ([10] if quick else [10, 12]):
        un = mkunit(units, L=2, N=n)
        jobs.append(dict(unit=un, entry="h_cbor_decode_first", unwind=n + 2, timeout=600 if quick else 2400,
                         bounds="%d arbitrary bytes, first item only (one cbor_stream_decode call)" % n,
                         what="first item of an arbitrary byte string: in-bounds, string views inside the input with the announced length, registered error otherwise"))
    # NOTE: h_cbor_strings / h_cbor_simple_and_sequence / h_cbor_skip (encoder-driven multi-item harnesses) exhaust 12 GB in CBMC's
    # propositional reduction (three cbor_stream_decode calls, each a 256-way switch); kept in the source, not run.  Restricting the 47
    # callback call sites to their single real target and allocating encoder/decoder from typed pools (both in place) did not change that.
    meta = dict(functions_encoded=["source/cbor.c", "libcbor encoding.c, streaming.c, internal/encoders.c, internal/loaders.c"],
                bounds="integers/doubles full range; strings up to 300/600 bytes; nesting depth 2/3; sequences of 3",
                stubs=["ldexp (libm, half-float decoding only): nondet", "base.c, alloc_direct.c, mem0.c"],
                out=["NOT DECIDED (do not fit: every harness with more than one cbor_stream_decode call, or the decoder on symbolic input bytes, exhausts 12 GB / 240 s): "
                     "string content round trip, multi-item sequences, skipping nested items, decoder on arbitrary bytes beyond the first item (the first item is decided: h_cbor_decode_first)",
                     "half-precision decoding precision (libm ldexp)"],
                assumptions=["CBMC --floatbv bit-precise IEEE-754 semantics for double/float conversions"])
    return dict(units=units, jobs=jobs, meta=meta)
