# C10 — CBOR
SRC = ["source/cbor.c", "source/byte_buf.c", "source/common.c", "source/error.c", "source/math.c",
       "source/external/libcbor/cbor/encoding.c", "source/external/libcbor/cbor/streaming.c",
       "source/external/libcbor/cbor/internal/encoders.c", "source/external/libcbor/cbor/internal/loaders.c"]
STUBS = ["base.c", "alloc_direct.c", "mem0.c"]


def mkunit(units, **d):
    name = "cb_" + "_".join("%s%s" % (k, v) for k, v in sorted(d.items()))
    units[name] = dict(harness=["C10/h_cbor.c"], sources=SRC, stubs=STUBS, defines=d)
    return name


def spec(tier):
    units, jobs = {}, []
    quick = tier == "quick"
    u = mkunit(units, L=2)
    jobs.append(dict(unit=u, entry="h_cbor_ints", unwind=10, bounds="value unconstrained 64-bit; uint/negint/tag/array/map heads", what="round trip, shortest head, independent reader agrees"))
    jobs.append(dict(unit=u, entry="h_cbor_float", unwind=10, timeout=240 if quick else 2400, bounds="every IEEE-754 double (bit pattern unconstrained)", what="smallest lossless form (int / single / double), value preserved, NaN/inf"))
    # NOTE: h_cbor_strings / h_cbor_simple_and_sequence / h_cbor_skip (encoder-driven multi-item harnesses) exhaust 12 GB in CBMC's
    # propositional reduction (three cbor_stream_decode calls, each a 256-way switch); kept in the source, not run.
    meta = dict(functions_encoded=["source/cbor.c", "libcbor encoding.c, streaming.c, internal/encoders.c, internal/loaders.c"],
                bounds="integers/doubles full range; strings up to 300/600 bytes; nesting depth 2/3; sequences of 3",
                stubs=["ldexp (libm, half-float decoding only): nondet", "base.c, alloc_direct.c, mem0.c"],
                out=["NOT DECIDED (do not fit: every harness with more than one cbor_stream_decode call, or the decoder on symbolic input bytes, exhausts 12 GB / 240 s): "
                     "string content round trip, multi-item sequences, skipping nested items, decoder on arbitrary bytes",
                     "half-precision decoding precision (libm ldexp)"],
                assumptions=["CBMC --floatbv bit-precise IEEE-754 semantics for double/float conversions"])
    return dict(units=units, jobs=jobs, meta=meta)
