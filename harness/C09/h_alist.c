/* C09 — array list: one operation from an ARBITRARY VALID list vs. a reference byte sequence */
#include "verif.h"
#include <aws/common/array_list.h>
#include <aws/common/error.h>
#include <string.h>
#ifndef MAXB
#    define MAXB 12 /* max bytes of backing storage in the pre-state */
#endif
#ifndef MAXISZ
#    define MAXISZ 3
#endif
#define GROWB (4 * MAXB + 4 * MAXISZ + 8)

struct lctx {
    struct aws_array_list l, snap;
    uint8_t shadow[MAXB];
    size_t nbytes; /* length * item_size */
};
#ifdef ISZ
#    define PICK_ISZ() ((size_t)ISZ)
#else
static size_t PICK_ISZ(void) { size_t s = nd_size(); ASSUME(s >= 1 && s <= MAXISZ); return s; }
#endif
/* mode: 0 static, 1 dynamic, 2 nondet */
static void mk_list_cur(struct lctx *c, int mode, size_t isz, size_t fixed_cur);
static void mk_list(struct lctx *c, int mode, size_t isz) {
#ifdef CUR
    mk_list_cur(c, mode, isz, CUR);
#else
    mk_list_cur(c, mode, isz, SIZE_MAX);
#endif
}
static void mk_list_cur(struct lctx *c, int mode, size_t isz, size_t fixed_cur) {
    bool dyn = mode == 1 ? true : (mode == 0 ? false : nd_bool());
    /* storage size fixed per job (constant-size objects are bit-blasted directly) unless SIZE_MAX */
    size_t cur = fixed_cur != SIZE_MAX ? fixed_cur : nd_size(), len = nd_size();
    ASSUME(cur <= MAXB);
    if (!dyn) ASSUME(cur >= isz); /* init_static requires item_count > 0 */
    ASSUME(len <= MAXB && len * isz <= cur);
    c->l.alloc = dyn ? verif_allocator() : NULL;
    c->l.current_size = cur;
    c->l.length = len;
    c->l.item_size = isz;
    c->l.data = cur ? verif_malloc(cur) : NULL; /* exactly cur bytes: writes outside caller storage are caught */
    ND_FILL(c->l.data, cur, MAXB);
    c->nbytes = len * isz;
    for (size_t i = 0; i < MAXB; ++i) if (i < c->nbytes) c->shadow[i] = ((uint8_t *)c->l.data)[i];
    c->snap = c->l;
}
static void chk_valid(const struct aws_array_list *l) {
    ASSERT(l->item_size != 0, "list: item_size != 0");
    ASSERT(l->length <= SIZE_MAX / l->item_size && l->length * l->item_size <= l->current_size, "list: length*item_size <= current_size");
    ASSERT((l->current_size == 0) == (l->data == NULL), "list: data NULL iff current_size 0");
    VERIF_CBMC_ONLY(ASSERT(l->current_size == 0 || __CPROVER_w_ok(l->data, l->current_size), "list: storage writable for current_size");)
}
static void chk_unchanged(const struct lctx *c) {
    ASSERT(c->l.data == c->snap.data && c->l.length == c->snap.length && c->l.current_size == c->snap.current_size &&
               c->l.item_size == c->snap.item_size && c->l.alloc == c->snap.alloc, "list: struct unchanged");
    size_t k = nd_size();
    if (k < c->nbytes) ASSERT(((uint8_t *)c->l.data)[k] == c->shadow[k], "list: content unchanged");
}
/* element e (new numbering) equals old element o, at a nondet byte */
static void chk_elem_from_old(const struct lctx *c, size_t e, size_t o) {
    size_t b = nd_size();
    ASSUME(b < c->l.item_size);
    ASSERT(((uint8_t *)c->l.data)[e * c->l.item_size + b] == c->shadow[o * c->l.item_size + b], "list: element equals reference element");
}
static void static_never_moves(const struct lctx *c) {
    if (c->snap.alloc == NULL) ASSERT(c->l.data == c->snap.data && c->l.current_size == c->snap.current_size, "static list: storage never replaced or grown");
}

void h_push_back(void) {
    struct lctx c;
    size_t isz = PICK_ISZ();
    mk_list(&c, 2, isz);
    uint8_t val[MAXISZ > 4 ? MAXISZ : 4];
    ND_FILL(val, isz, MAXISZ);
    size_t L = c.snap.length;
    int rc = aws_array_list_push_back(&c.l, val);
    chk_valid(&c.l);
    static_never_moves(&c);
    if (c.snap.alloc == NULL && (L + 1) * isz > c.snap.current_size) {
        ASSERT(rc == AWS_OP_ERR && aws_last_error() == AWS_ERROR_LIST_EXCEEDS_MAX_SIZE, "push_back: full static list refuses");
        chk_unchanged(&c);
        WITNESS("push_back static full");
        return;
    }
    ASSERT(rc == AWS_OP_SUCCESS, "push_back succeeds");
    ASSERT(c.l.length == L + 1, "push_back: length+1");
    size_t e = nd_size();
    if (e < L) chk_elem_from_old(&c, e, e);
    size_t b = nd_size();
    if (b < isz) ASSERT(((uint8_t *)c.l.data)[L * isz + b] == val[b], "push_back: new element stored last");
    WITNESS("push_back ok");
    if (c.snap.alloc && (L + 1) * isz > c.snap.current_size) {
        size_t nec = (L + 1) * isz, dbl = c.snap.current_size * 2;
        ASSERT(c.l.current_size == (dbl > nec ? dbl : nec), "push_back: growth = max(2*old, needed)");
        if (L > 0) WITNESS("push_back grew non-empty dynamic list");
    }
}

void h_push_front(void) {
    struct lctx c;
    size_t isz = PICK_ISZ();
    mk_list(&c, 2, isz);
    uint8_t val[MAXISZ > 4 ? MAXISZ : 4];
    ND_FILL(val, isz, MAXISZ);
    size_t L = c.snap.length;
    int rc = aws_array_list_push_front(&c.l, val);
    chk_valid(&c.l);
    static_never_moves(&c);
    if (c.snap.alloc == NULL && (L + 1) * isz > c.snap.current_size) {
        ASSERT(rc == AWS_OP_ERR && aws_last_error() == AWS_ERROR_LIST_EXCEEDS_MAX_SIZE, "push_front: full static list refuses");
        chk_unchanged(&c);
        WITNESS("push_front static full");
        return;
    }
    ASSERT(rc == AWS_OP_SUCCESS, "push_front succeeds");
    ASSERT(c.l.length == L + 1, "push_front: length+1");
    size_t e = nd_size();
    if (e < L) chk_elem_from_old(&c, e + 1, e);
    size_t b = nd_size();
    if (b < isz) ASSERT(((uint8_t *)c.l.data)[b] == val[b], "push_front: new element stored first");
    WITNESS("push_front ok");
    if (L >= 2) WITNESS("push_front shifted >= 2 elements");
}

void h_pop(void) {
    struct lctx c;
    size_t isz = PICK_ISZ();
    mk_list(&c, 2, isz);
    size_t L = c.snap.length;
    unsigned op = nd_u8();
    ASSUME(op < 3);
    if (op == 0) {
        int rc = aws_array_list_pop_back(&c.l);
        if (L == 0) { ASSERT(rc == AWS_OP_ERR && aws_last_error() == AWS_ERROR_LIST_EMPTY, "pop_back: empty"); chk_unchanged(&c); WITNESS("pop_back empty"); return; }
        ASSERT(rc == AWS_OP_SUCCESS && c.l.length == L - 1, "pop_back: length-1");
        size_t e = nd_size();
        if (e < L - 1) chk_elem_from_old(&c, e, e);
    } else if (op == 1) {
        int rc = aws_array_list_pop_front(&c.l);
        if (L == 0) { ASSERT(rc == AWS_OP_ERR && aws_last_error() == AWS_ERROR_LIST_EMPTY, "pop_front: empty"); chk_unchanged(&c); WITNESS("pop_front empty"); return; }
        ASSERT(rc == AWS_OP_SUCCESS && c.l.length == L - 1, "pop_front: length-1");
        size_t e = nd_size();
        if (e < L - 1) chk_elem_from_old(&c, e, e + 1);
        if (L >= 3) WITNESS("pop_front shifted");
    } else {
        size_t n = nd_size(); /* unconstrained */
        aws_array_list_pop_front_n(&c.l, n);
        ASSERT(c.l.length == (n >= L ? 0 : L - n), "pop_front_n: length");
        size_t e = nd_size();
        if (n < L && e < L - n) chk_elem_from_old(&c, e, e + n);
        if (n >= 2 && n < L) WITNESS("pop_front_n partial");
        if (n >= L) WITNESS("pop_front_n all");
    }
    chk_valid(&c.l);
    ASSERT(c.l.data == c.snap.data && c.l.current_size == c.snap.current_size, "pop: storage kept");
}

void h_erase(void) {
    struct lctx c;
    size_t isz = PICK_ISZ();
    mk_list(&c, 2, isz);
    size_t L = c.snap.length;
    size_t idx = nd_size(); /* unconstrained */
    int rc = aws_array_list_erase(&c.l, idx);
    chk_valid(&c.l);
    if (idx >= L) {
        ASSERT(rc == AWS_OP_ERR && aws_last_error() == AWS_ERROR_INVALID_INDEX, "erase: invalid index");
        chk_unchanged(&c);
        WITNESS("erase invalid index");
        return;
    }
    ASSERT(rc == AWS_OP_SUCCESS && c.l.length == L - 1, "erase: length-1");
    size_t e = nd_size();
    if (e < L - 1) chk_elem_from_old(&c, e, e < idx ? e : e + 1);
    if (idx > 0 && idx + 1 < L) WITNESS("erase middle");
}

void h_set_at(void) {
    struct lctx c;
    size_t isz = PICK_ISZ();
    mk_list(&c, 2, isz);
    uint8_t val[MAXISZ > 4 ? MAXISZ : 4];
    ND_FILL(val, isz, MAXISZ);
    size_t L = c.snap.length;
    size_t idx = nd_size(); /* unconstrained: index*item_size near SIZE_MAX reaches the overflow guards */
    size_t nec;
    bool ovf = idx == SIZE_MAX || __builtin_mul_overflow(idx + 1, isz, &nec);
    ASSUME(ovf || nec <= MAXB + 2 * MAXISZ || (c.snap.alloc == NULL));
    int rc = aws_array_list_set_at(&c.l, val, idx);
    chk_valid(&c.l);
    static_never_moves(&c);
    if (ovf) {
        ASSERT(rc == AWS_OP_ERR, "set_at: index/size overflow is an error");
        chk_unchanged(&c);
        WITNESS("set_at overflow");
        return;
    }
    if (c.snap.alloc == NULL && nec > c.snap.current_size) {
        ASSERT(rc == AWS_OP_ERR && aws_last_error() == AWS_ERROR_INVALID_INDEX, "set_at: static list refuses to grow");
        chk_unchanged(&c);
        WITNESS("set_at static refuses");
        return;
    }
    ASSERT(rc == AWS_OP_SUCCESS, "set_at succeeds");
    ASSERT(c.l.length == (idx >= L ? idx + 1 : L), "set_at: length = max(old, index+1)");
    size_t e = nd_size();
    if (e < L && e != idx) chk_elem_from_old(&c, e, e);
    size_t b = nd_size();
    if (b < isz) ASSERT(((uint8_t *)c.l.data)[idx * isz + b] == val[b], "set_at: value stored at index");
    if (idx > L && c.snap.alloc && nec > c.snap.current_size) WITNESS("set_at gap growth");
}

void h_get(void) {
    struct lctx c;
    size_t isz = PICK_ISZ();
    mk_list(&c, 2, isz);
    size_t L = c.snap.length;
    uint8_t out[MAXISZ > 4 ? MAXISZ : 4];
    size_t idx = nd_size();
    unsigned op = nd_u8();
    ASSUME(op < 4);
    size_t b = nd_size();
    ASSUME(b < isz);
    if (op == 0) {
        int rc = aws_array_list_get_at(&c.l, out, idx);
        ASSERT((rc == AWS_OP_SUCCESS) == (idx < L), "get_at: succeeds iff index < length");
        if (rc == AWS_OP_SUCCESS) ASSERT(out[b] == c.shadow[idx * isz + b], "get_at: value"); else ASSERT(aws_last_error() == AWS_ERROR_INVALID_INDEX, "get_at: error code");
    } else if (op == 1) {
        void *p = NULL;
        int rc = aws_array_list_get_at_ptr(&c.l, &p, idx);
        ASSERT((rc == AWS_OP_SUCCESS) == (idx < L), "get_at_ptr: succeeds iff index < length");
        if (rc == AWS_OP_SUCCESS) ASSERT(p == (uint8_t *)c.l.data + idx * isz, "get_at_ptr: address"); else ASSERT(p == NULL, "get_at_ptr: output untouched");
    } else if (op == 2) {
        int rc = aws_array_list_front(&c.l, out);
        ASSERT((rc == AWS_OP_SUCCESS) == (L > 0), "front: succeeds iff non-empty");
        if (rc == AWS_OP_SUCCESS) ASSERT(out[b] == c.shadow[b], "front: value");
    } else {
        int rc = aws_array_list_back(&c.l, out);
        ASSERT((rc == AWS_OP_SUCCESS) == (L > 0), "back: succeeds iff non-empty");
        if (rc == AWS_OP_SUCCESS) ASSERT(out[b] == c.shadow[(L - 1) * isz + b], "back: value");
    }
    chk_unchanged(&c);
    ASSERT(aws_array_list_length(&c.l) == L, "length query");
    ASSERT(aws_array_list_capacity(&c.l) == c.snap.current_size / isz, "capacity query");
    WITNESS("get");
}

void h_misc(void) { /* clear, shrink_to_fit, ensure_capacity, clean_up, swap_contents */
    struct lctx c;
    size_t isz = PICK_ISZ();
    mk_list(&c, 2, isz);
    size_t L = c.snap.length;
    unsigned op = nd_u8();
    ASSUME(op < 5);
    if (op == 0) {
        aws_array_list_clear(&c.l);
        ASSERT(c.l.length == 0 && c.l.data == c.snap.data && c.l.current_size == c.snap.current_size, "clear: length 0, storage kept");
        chk_valid(&c.l);
    } else if (op == 1) {
        int rc = aws_array_list_shrink_to_fit(&c.l);
        chk_valid(&c.l);
        if (!c.snap.alloc) {
            ASSERT(rc == AWS_OP_ERR && aws_last_error() == AWS_ERROR_LIST_STATIC_MODE_CANT_SHRINK, "shrink: static refuses");
            chk_unchanged(&c);
        } else {
            ASSERT(rc == AWS_OP_SUCCESS && c.l.length == L && c.l.current_size == L * isz, "shrink: exact fit");
            size_t e = nd_size();
            if (e < L) chk_elem_from_old(&c, e, e);
            if (L > 0 && c.snap.current_size > L * isz) WITNESS("shrink reallocated");
        }
    } else if (op == 2) {
        size_t idx = nd_size();
        size_t nec;
        bool ovf = idx == SIZE_MAX || __builtin_mul_overflow(idx + 1, isz, &nec);
        ASSUME(ovf || nec <= MAXB + 2 * MAXISZ || c.snap.alloc == NULL);
        int rc = aws_array_list_ensure_capacity(&c.l, idx);
        chk_valid(&c.l);
        static_never_moves(&c);
        if (ovf || (!c.snap.alloc && nec > c.snap.current_size)) {
            ASSERT(rc == AWS_OP_ERR, "ensure_capacity: error");
            chk_unchanged(&c);
        } else {
            ASSERT(rc == AWS_OP_SUCCESS && c.l.current_size >= nec && c.l.length == L, "ensure_capacity: capacity reached, length kept");
            size_t e = nd_size();
            if (e < L) chk_elem_from_old(&c, e, e);
        }
    } else if (op == 3) {
        aws_array_list_clean_up(&c.l);
        ASSERT(c.l.data == NULL && c.l.length == 0 && c.l.current_size == 0 && c.l.item_size == 0 && c.l.alloc == NULL, "clean_up zeroes the struct");
    } else {
        struct lctx d;
        mk_list(&c, 1, isz); /* swap_contents requires dynamic lists with the same allocator */
        mk_list(&d, 1, isz);
        aws_array_list_swap_contents(&c.l, &d.l);
        ASSERT(c.l.data == d.snap.data && c.l.length == d.snap.length && c.l.current_size == d.snap.current_size, "swap_contents: a gets b");
        ASSERT(d.l.data == c.snap.data && d.l.length == c.snap.length && d.l.current_size == c.snap.current_size, "swap_contents: b gets a");
    }
    WITNESS("misc");
}

void h_copy(void) {
    struct lctx f, t;
    size_t isz = PICK_ISZ();
#ifdef CUR
    mk_list_cur(&f, 2, isz, CUR + ISZ <= MAXB ? CUR + ISZ : CUR); /* source storage one item larger than destination's */
#else
    mk_list(&f, 2, isz);
#endif
    mk_list(&t, 2, isz);
    ASSUME(f.l.data != NULL); /* fatal precondition of aws_array_list_copy */
    int rc = aws_array_list_copy(&f.l, &t.l);
    chk_valid(&t.l);
    chk_unchanged(&f);
    size_t need = f.snap.length * isz;
    if (t.snap.alloc == NULL) ASSERT(t.l.data == t.snap.data && t.l.current_size == t.snap.current_size, "copy: static destination storage never replaced");
    if (t.snap.current_size < need && t.snap.alloc == NULL) {
        ASSERT(rc == AWS_OP_ERR && aws_last_error() == AWS_ERROR_DEST_COPY_TOO_SMALL, "copy: static destination too small");
        ASSERT(t.l.length == t.snap.length, "copy failure: destination length unchanged");
        size_t k = nd_size();
        if (k < t.nbytes) ASSERT(((uint8_t *)t.l.data)[k] == t.shadow[k], "copy failure: destination content unchanged");
        WITNESS("copy too small");
        return;
    }
    ASSERT(rc == AWS_OP_SUCCESS && t.l.length == f.snap.length, "copy: length copied");
    size_t k = nd_size();
    if (k < need) ASSERT(((uint8_t *)t.l.data)[k] == f.shadow[k], "copy: content equal");
    WITNESS("copy ok");
    if (t.snap.current_size < need) WITNESS("copy reallocated destination");
}

/* swap with element sizes across the 128-byte slice boundary (ISZ fixed per job) */
#ifdef ISZ
static void swap_case(size_t a, size_t b) {
    enum { CNT = 3 };
    struct aws_array_list l;
    uint8_t *store = verif_malloc(CNT * ISZ);
    aws_array_list_init_static_from_initialized(&l, store, CNT, ISZ);
    size_t e = nd_size(), off = nd_size();
    ASSUME(e < CNT && off < ISZ);
    /* only the observed byte of each element needs a name; everything else stays symbolic */
    uint8_t before_a = store[a * ISZ + off], before_b = store[b * ISZ + off], before_e = store[e * ISZ + off];
    aws_array_list_swap(&l, a, b);
    ASSERT(store[a * ISZ + off] == before_b, "swap: a now holds old b (every byte)");
    ASSERT(store[b * ISZ + off] == before_a, "swap: b now holds old a (every byte)");
    if (e != a && e != b) ASSERT(store[e * ISZ + off] == before_e, "swap: other elements untouched");
    ASSERT(l.length == CNT && l.data == store, "swap: list struct unchanged");
    if (a != b) WITNESS("swap distinct");
}
void h_swap(void) {
    /* the index pair is chosen by the solver; the case split only gives symbolic execution constant pointers in each branch */
    unsigned sel = nd_u8();
    ASSUME(sel < 9);
    for (unsigned a = 0; a < 3; ++a)
        for (unsigned b = 0; b < 3; ++b)
            if (sel == a * 3 + b) swap_case(a, b);
}
#endif

/* sort is a thin wrapper over libc qsort (outside /repo): only the arguments are decided */
static void *q_base; static size_t q_n, q_sz; static int q_calls;
#ifndef VERIF_NATIVE
void qsort(void *base, size_t n, size_t sz, int (*cmp)(const void *, const void *)) { q_base = base; q_n = n; q_sz = sz; q_calls++; (void)cmp; }
#endif
static int cmp_u8(const void *a, const void *b) { return (int)*(const uint8_t *)a - (int)*(const uint8_t *)b; }
void h_sort_args(void) {
#ifndef VERIF_NATIVE
    struct lctx c;
    size_t isz = PICK_ISZ();
    mk_list(&c, 2, isz);
    aws_array_list_sort(&c.l, cmp_u8);
    if (c.snap.data) {
        ASSERT(q_calls == 1 && q_base == c.snap.data && q_n == c.snap.length && q_sz == isz, "sort: qsort(data, length, item_size)");
    } else {
        ASSERT(q_calls == 0, "sort: no qsort on a list without storage");
    }
    chk_unchanged(&c);
#endif
    WITNESS("sort");
}

/* init + a short program (cross-check that mk_list states are reachable-like) */
void h_init_and_program(void) {
    struct aws_array_list l;
    size_t isz = PICK_ISZ();
#ifdef CUR
    size_t n0 = CUR / ISZ > 2 ? 2 : CUR / ISZ; /* constant initial allocation per job */
#else
    size_t n0 = nd_size();
    ASSUME(n0 <= 2);
#endif
    ASSERT(aws_array_list_init_dynamic(&l, verif_allocator(), n0, isz) == AWS_OP_SUCCESS, "init_dynamic");
    chk_valid(&l);
    ASSERT(l.length == 0 && l.current_size == n0 * isz, "init_dynamic: empty, requested allocation");
    uint8_t v1[4], v2[4];
    ND_FILL(v1, isz, MAXISZ);
    ND_FILL(v2, isz, MAXISZ);
    ASSERT(aws_array_list_push_back(&l, v1) == AWS_OP_SUCCESS, "prog: push_back");
    ASSERT(aws_array_list_push_front(&l, v2) == AWS_OP_SUCCESS, "prog: push_front");
    chk_valid(&l);
    uint8_t o[4];
    size_t b = nd_size();
    ASSUME(b < isz);
    ASSERT(aws_array_list_get_at(&l, o, 0) == AWS_OP_SUCCESS && o[b] == v2[b], "prog: element 0");
    ASSERT(aws_array_list_get_at(&l, o, 1) == AWS_OP_SUCCESS && o[b] == v1[b], "prog: element 1");
    aws_array_list_clean_up(&l);
    WITNESS("program");
}
