# C09 — array list and linked list
SRC = ["source/array_list.c", "source/common.c", "source/error.c", "source/math.c"]
STUBS = ["base.c", "alloc_direct.c", "memcpy_loop.c"]
AL = ["h_push_back", "h_push_front", "h_pop", "h_erase", "h_set_at", "h_get", "h_misc", "h_copy", "h_sort_args",
      "h_init_and_program"]


def spec(tier):
    maxb, maxisz = (9, 3) if tier == "quick" else (16, 4)
    p = 5 if tier == "quick" else 7
    units = {"ll": dict(harness=["C09/h_llist.c"], sources=["source/common.c", "source/error.c"], stubs=["base.c", "alloc_direct.c"], defines={"P": p})}
    jobs = []
    grow = maxb + 2 * maxisz + 3
    combos = [(1, 0), (1, 1), (1, 4), (3, 3), (3, 7), (3, 9)] if tier == "quick" else \
             [(i, c) for i in (1, 2, 3, 4) for c in (0, i, 2 * i + 1, 4 * i) if c <= maxb]
    for (i, cur) in combos:
        u = "al%d_%d" % (i, cur)
        units[u] = dict(harness=["C09/h_alist.c"], sources=SRC, stubs=STUBS, defines={"MAXB": maxb, "MAXISZ": maxisz, "ISZ": i, "CUR": cur})
        for e in AL:
            jobs.append(dict(unit=u, entry=e, unwind=grow,
                             bounds="storage %d bytes, item_size %d, length symbolic, all bytes symbolic, indices unconstrained 64-bit" % (cur, i),
                             what="array list one-step from arbitrary valid list (static or dynamic), item_size %d, storage %d bytes: %s" % (i, cur, e)))
    sizes = [1, 2, 127, 128, 129, 256, 300] if tier == "quick" else [1, 2, 3, 64, 127, 128, 129, 200, 255, 256, 257, 299, 300, 384, 1000]
    for isz in sizes:
        u = "swap%d" % isz
        units[u] = dict(harness=["C09/h_alist.c"], sources=SRC, stubs=["base.c", "alloc_direct.c", "mem0.c"], defines={"ISZ": isz, "MAXB": 9, "MAXISZ": 3})
        jobs.append(dict(unit=u, entry="h_swap", unwind=max(5, isz // 128 + 3), timeout=900 if tier == "quick" else 3000,
                         bounds="3 elements of %d bytes, all bytes symbolic, indices symbolic" % isz,
                         what="aws_array_list_swap with item_size %d (128-byte slices + remainder)" % isz))
    for e in ["h_ll_single", "h_ll_swap_nodes", "h_ll_two_lists", "h_ll_init"]:
        jobs.append(dict(unit="ll", entry=e, unwind=p + 2, bounds="node pool of %d, list lengths symbolic" % p,
                         what="linked list one-step: " + e))
    meta = dict(
        functions_encoded=["all of include/aws/common/array_list.inl", "all of source/array_list.c (aws_array_list_sort: wrapper arguments only)",
                           "all of include/aws/common/linked_list.inl"],
        bounds="array list: storage <= %d bytes, item_size 1..%d (swap: %s); linked list: pool of %d nodes" % (maxb, maxisz, sizes, p),
        stubs=["base.c", "alloc_direct.c", "memcpy_loop.c: memcpy/memmove/memset as byte loops (memmove direction-aware)",
               "qsort: records its arguments (libc, outside /repo)"],
        out=["qsort's own sorting (libc)", "lists larger than the bounds", "allocation failure"],
        assumptions=["pre-states are exactly aws_array_list_is_valid states (static: data non-NULL, capacity >= 1 item)",
                     "linked-list pre-states are wired directly: any list of the given length over distinct nodes"])
    return dict(units=units, jobs=jobs, meta=meta)
