/* C09 — intrusive linked list: one operation from arbitrary lists A (and B) built from a node pool;
 * forward walk must equal the expected sequence, backward walk its mirror, removed nodes detached. */
#include "verif.h"
#include <aws/common/linked_list.h>
#ifndef P
#    define P 5
#endif
static struct aws_linked_list_node pool[P];
struct seq { struct aws_linked_list_node *n[P]; size_t len; };

/* wire list `l` to contain pool[first .. first+len) in order (direct wiring: an arbitrary valid list) */
static void wire(struct aws_linked_list *l, struct seq *s, size_t first, size_t len) {
    l->head.prev = NULL; l->tail.next = NULL;
    struct aws_linked_list_node *prev = &l->head;
    s->len = len;
    for (size_t i = 0; i < P; ++i)
        if (i < len) {
            struct aws_linked_list_node *n = &pool[first + i];
            s->n[i] = n;
            prev->next = n;
            n->prev = prev;
            prev = n;
        }
    prev->next = &l->tail;
    l->tail.prev = prev;
}
static void chk_list(const struct aws_linked_list *l, const struct seq *s) {
    ASSERT(l->head.prev == NULL && l->tail.next == NULL, "list: sentinels terminated");
    const struct aws_linked_list_node *n = l->head.next;
    for (size_t i = 0; i < P; ++i)
        if (i < s->len) { ASSERT(n == s->n[i], "list: forward walk equals expected sequence"); n = n->next; }
    ASSERT(n == &l->tail, "list: forward walk ends at tail after expected length");
    n = l->tail.prev;
    for (size_t i = 0; i < P; ++i)
        if (i < s->len) { ASSERT(n == s->n[s->len - 1 - i], "list: backward walk is the mirror image"); n = n->prev; }
    ASSERT(n == &l->head, "list: backward walk ends at head");
    ASSERT(aws_linked_list_empty(l) == (s->len == 0), "list: empty() agrees");
}
static void seq_insert(struct seq *s, size_t at, struct aws_linked_list_node *x) {
    for (size_t i = P - 1; i > 0; --i) if (i > at && i <= s->len) s->n[i] = s->n[i - 1];
    s->n[at] = x; s->len++;
}
static void seq_remove(struct seq *s, size_t at) {
    for (size_t i = 0; i + 1 < P; ++i) if (i >= at && i + 1 < s->len) s->n[i] = s->n[i + 1];
    s->len--;
}

void h_ll_single(void) { /* operations on one list + one free node */
    struct aws_linked_list a;
    struct seq sa;
    size_t na = nd_size();
    ASSUME(na <= P - 1);
    wire(&a, &sa, 0, na);
    struct aws_linked_list_node *x = &pool[P - 1]; /* free node */
    x->next = x->prev = NULL;
    unsigned op = nd_u8();
    ASSUME(op < 8);
    size_t i = nd_size();
    switch (op) {
        case 0: aws_linked_list_push_back(&a, x); seq_insert(&sa, sa.len, x); break;
        case 1: aws_linked_list_push_front(&a, x); seq_insert(&sa, 0, x); break;
        case 2: {
            ASSUME(na > 0);
            struct aws_linked_list_node *r = aws_linked_list_pop_back(&a);
            ASSERT(r == sa.n[na - 1], "pop_back returns the last node");
            ASSERT(r->next == NULL && r->prev == NULL, "pop_back: node fully detached");
            seq_remove(&sa, na - 1);
            break;
        }
        case 3: {
            ASSUME(na > 0);
            struct aws_linked_list_node *r = aws_linked_list_pop_front(&a);
            ASSERT(r == sa.n[0], "pop_front returns the first node");
            ASSERT(r->next == NULL && r->prev == NULL, "pop_front: node fully detached");
            seq_remove(&sa, 0);
            break;
        }
        case 4: ASSUME(i < na); aws_linked_list_insert_before(sa.n[i], x); seq_insert(&sa, i, x); break;
        case 5: ASSUME(i < na); aws_linked_list_insert_after(sa.n[i], x); seq_insert(&sa, i + 1, x); break;
        case 6: {
            ASSUME(i < na);
            struct aws_linked_list_node *r = sa.n[i];
            aws_linked_list_remove(r);
            ASSERT(r->next == NULL && r->prev == NULL, "remove: node fully detached");
            ASSERT(!aws_linked_list_node_is_in_list(r), "remove: node reports not in list");
            seq_remove(&sa, i);
            break;
        }
        case 7: {
            ASSUME(na > 0);
            ASSERT(aws_linked_list_front(&a) == sa.n[0] && aws_linked_list_back(&a) == sa.n[na - 1], "front/back");
            ASSERT(aws_linked_list_begin(&a) == sa.n[0] && aws_linked_list_rbegin(&a) == sa.n[na - 1], "begin/rbegin");
            ASSERT(aws_linked_list_end(&a) == &a.tail && aws_linked_list_rend(&a) == &a.head, "end/rend");
            break;
        }
    }
    chk_list(&a, &sa);
    if (op == 4 && na >= 2 && i == 1) WITNESS("insert_before middle");
    if (op == 6 && na >= 3 && i == 1) WITNESS("remove middle");
    WITNESS("single-list op");
}

void h_ll_swap_nodes(void) { /* any two nodes: same list (adjacent either order, apart, identical) or different lists */
    struct aws_linked_list a, b;
    struct seq sa, sb;
    size_t na = nd_size(), nb = nd_size();
    ASSUME(na <= P && nb <= P - na);
    wire(&a, &sa, 0, na);
    wire(&b, &sb, na, nb);
    size_t i = nd_size(), j = nd_size();
    ASSUME(i < na + nb && j < na + nb);
    struct aws_linked_list_node *x = &pool[i], *y = &pool[j];
    aws_linked_list_swap_nodes(x, y);
    /* expected: positions exchanged */
    if (i < na) sa.n[i] = y; else sb.n[i - na] = y;
    if (j < na) sa.n[j] = x; else sb.n[j - na] = x;
    chk_list(&a, &sa);
    chk_list(&b, &sb);
    if (i < na && j < na && j + 1 == i) WITNESS("swap adjacent, second argument first in list");
    if (i < na && j < na && i + 1 == j) WITNESS("swap adjacent, first argument first in list");
    if (i < na && j >= na) WITNESS("swap across lists");
    if (i == j) WITNESS("swap identical");
}

void h_ll_two_lists(void) { /* swap_contents, move_all_back, move_all_front */
    struct aws_linked_list a, b;
    struct seq sa, sb, ea, eb;
    size_t na = nd_size(), nb = nd_size();
    ASSUME(na <= P && nb <= P - na);
    wire(&a, &sa, 0, na);
    wire(&b, &sb, na, nb);
    unsigned op = nd_u8();
    ASSUME(op < 3);
    if (op == 0) {
        aws_linked_list_swap_contents(&a, &b);
        ea = sb; eb = sa;
    } else if (op == 1) { /* dst = a, src = b : a := a ++ b */
        aws_linked_list_move_all_back(&a, &b);
        ea = sa;
        for (size_t k = 0; k < P; ++k) if (k < nb) ea.n[na + k] = sb.n[k];
        ea.len = na + nb; eb.len = 0;
    } else { /* a := b ++ a */
        aws_linked_list_move_all_front(&a, &b);
        ea.len = na + nb; eb.len = 0;
        for (size_t k = 0; k < P; ++k) { if (k < nb) ea.n[k] = sb.n[k]; }
        for (size_t k = 0; k < P; ++k) { if (k < na) ea.n[nb + k] = sa.n[k]; }
    }
    chk_list(&a, &ea);
    chk_list(&b, &eb);
    if (op == 0 && na == 0 && nb > 0) WITNESS("swap_contents with empty a");
    if (op == 0 && na > 0 && nb == 0) WITNESS("swap_contents with empty b");
    if (op == 1 && na > 0 && nb > 1) WITNESS("move_all_back both non-empty");
    if (op == 2 && na > 0 && nb > 1) WITNESS("move_all_front both non-empty");
}

void h_ll_init(void) {
    struct aws_linked_list a;
    struct seq sa;
    sa.len = 0;
    aws_linked_list_init(&a);
    chk_list(&a, &sa);
    ASSERT(aws_linked_list_is_valid(&a), "init: valid");
    struct aws_linked_list_node n;
    n.next = &n; n.prev = &n;
    aws_linked_list_node_reset(&n);
    ASSERT(n.next == NULL && n.prev == NULL, "node_reset");
    WITNESS("init");
}
