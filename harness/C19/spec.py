# C19 — date-time (library-side parsing and epoch views; the calendar is glibc's)
SRC = ["source/date_time.c", "source/byte_buf.c", "source/common.c", "source/error.c", "source/math.c"]
NAMES = ["ISO 8601 extended Z", "ISO 8601 basic Z", "ISO 8601 extended +hh:mm", "ISO 8601 basic -hhmm", "ISO 8601 extended fractional seconds", "ISO 8601 date only",
         "ISO 8601 basic date only", "RFC 822 with weekday, GMT", "RFC 822 without weekday, UT", "RFC 822 numeric offset +-hhmm", "RFC 822 two-digit year, lower-case utc",
         "ISO 8601 lower-case t/z"]


def spec(tier):
    units, jobs = {}, []
    for sh, nm in enumerate(NAMES):
        if sh == 2 and tier == "quick":
            continue  # ISO extended +hh:mm needs > 240 s with kissat: thorough tier only (basic -hhmm covers the offset arithmetic in quick)
        u = "d%d" % sh
        units[u] = dict(harness=["C19/h_date.c"], sources=SRC, stubs=["base.c", "alloc_direct.c", "mem0.c"], defines={"SHAPE": sh}, native=False)
        jobs.append(dict(unit=u, entry="h_date_parse", unwind=40, timeout=500 if tier == "quick" else 3000, backend="kissat",
                         bounds="%s; every digit symbolic (0-9), month name symbolic (12), calendar result symbolic" % nm,
                         what="fields handed to the calendar == written fields; offset honoured; explicit format == auto-detect; epoch views"))
    jobs.append(dict(unit="d0", entry="h_date_epoch_views", unwind=4, backend="cvc5int", bounds="timestamp 0..253402300799, milliseconds 0..999", what="epoch views mutually consistent"))
    meta = dict(functions_encoded=["source/date_time.c: aws_date_time_init_from_str_cursor, s_parse_iso_8601, s_parse_rfc_822, is_utc_time_zone, get_month_number_from_str, epoch views"],
                bounds="12 textual shapes, all digits symbolic",
                stubs=["aws_timegm / mktime / aws_gmtime / aws_localtime: record their argument, return a symbolic instant (the calendar is glibc, outside /repo)",
                       "tolower / strtol: ASCII models", "base.c, alloc_direct.c, mem0.c"],
                out=["NOT DECIDED: agreement with the proleptic Gregorian calendar, formatting (strftime) and the instant-level round trip -- all glibc",
                     "field range validation (month 13, day 32 are handed to the calendar as written)"],
                assumptions=["aws_timegm is a function of the six broken-down fields"])
    return dict(units=units, jobs=jobs, meta=meta)
