/* C19 (library-side part) — date-time parsing: for each supported textual shape (constant per job) with
 * every digit symbolic, the broken-down fields handed to the calendar (aws_timegm, stubbed: the
 * calendar itself is glibc) are exactly the written fields, UTC is assumed, the numeric offset is
 * honoured, and explicit-format parsing agrees with auto-detection.  Epoch views are consistent. */
#include "verif.h"
#include <aws/common/date_time.h>
#include <aws/common/time.h>
#include <aws/common/byte_buf.h>
#include <aws/common/error.h>
#include <string.h>
#include <time.h>
/* ---- calendar stubs (libc / posix/time.c): record the argument, return an arbitrary instant ---- */
static struct tm seen_tm;
static unsigned timegm_calls, mktime_calls;
static time_t stub_instant;
time_t aws_timegm(struct tm *const t) { seen_tm = *t; timegm_calls++; return stub_instant; }
void aws_gmtime(time_t time, struct tm *t) { (void)time; t->tm_year = 70; }
void aws_localtime(time_t time, struct tm *t) { (void)time; t->tm_year = 70; }
#ifndef VERIF_NATIVE
time_t mktime(struct tm *t) { seen_tm = *t; mktime_calls++; return stub_instant; }
int tolower(int c) { return (c >= 'A' && c <= 'Z') ? c + 32 : c; }
long strtol(const char *s, char **e, int base) { (void)e; (void)base; long v = 0; for (int i = 0; i < 2; ++i) if (s[i] >= '0' && s[i] <= '9') v = v * 10 + (s[i] - '0'); return v; }
#endif
#ifndef SHAPE
#    define SHAPE 0
#endif
/* shapes: 0 ISO ext Z   1 ISO basic Z   2 ISO ext +hh:mm   3 ISO basic -hhmm   4 ISO ext fractional Z   5 ISO date only ext
 *         6 ISO date only basic   7 RFC822 "Www, DD Mon YYYY HH:MM:SS GMT"   8 RFC822 no weekday, UT   9 RFC822 +hhmm   10 RFC822 2-digit year, lower-case utc   11 ISO lower-case t/z */
static const char *const MON[12] = {"Jan", "Feb", "Mar", "Apr", "May", "Jun", "Jul", "Aug", "Sep", "Oct", "Nov", "Dec"};
static char text[48];
static size_t tlen;
static int f_year, f_mon, f_day, f_h, f_m, f_s, f_oh, f_om; static bool neg_off;
static void put_c(char c) { text[tlen++] = c; }
static int put_digits(int n) { int v = 0; for (int i = 0; i < n; ++i) { uint8_t d = nd_u8(); ASSUME(d <= 9); put_c((char)('0' + d)); v = v * 10 + d; } return v; }
static void put_s(const char *s) { for (int i = 0; i < 8; ++i) { if (!s[i]) break; put_c(s[i]); } }
static void build(void) {
    tlen = 0; f_oh = f_om = 0; neg_off = false; f_h = f_m = f_s = 0;
    bool iso = SHAPE <= 6 || SHAPE == 11;
    if (iso) {
        bool ext = SHAPE == 0 || SHAPE == 2 || SHAPE == 4 || SHAPE == 5 || SHAPE == 11;
        f_year = put_digits(4); if (ext) put_c('-'); f_mon = put_digits(2); if (ext) put_c('-'); f_day = put_digits(2);
        if (SHAPE == 5 || SHAPE == 6) return;
        put_c(SHAPE == 11 ? 't' : 'T');
        f_h = put_digits(2); if (ext) put_c(':'); f_m = put_digits(2); if (ext) put_c(':'); f_s = put_digits(2);
        if (SHAPE == 4) { put_c(nd_bool() ? '.' : ','); put_digits(3); }
        if (SHAPE == 2) { put_c('+'); f_oh = put_digits(2); put_c(':'); f_om = put_digits(2); }
        else if (SHAPE == 3) { put_c('-'); neg_off = true; f_oh = put_digits(2); f_om = put_digits(2); }
        else put_c(SHAPE == 11 ? 'z' : 'Z');
    } else {
        if (SHAPE != 8) put_s("Wed, ");
        f_day = put_digits(2); put_c(' ');
        size_t mi = nd_size(); ASSUME(mi < 12);
        f_mon = (int)mi + 1;
        put_c(MON[mi][0]); put_c(MON[mi][1]); put_c(MON[mi][2]); put_c(' ');
        if (SHAPE == 10) f_year = 2000 + put_digits(2); else f_year = put_digits(4);
        put_c(' ');
        f_h = put_digits(2); put_c(':'); f_m = put_digits(2); put_c(':'); f_s = put_digits(2); put_c(' ');
        if (SHAPE == 7) put_s("GMT"); else if (SHAPE == 8) put_s("UT"); else if (SHAPE == 10) put_s("utc");
        else { neg_off = nd_bool(); put_c(neg_off ? '-' : '+'); f_oh = put_digits(2); f_om = put_digits(2); }
    }
}
void h_date_parse(void) {
    build();
    stub_instant = (time_t)nd_i64();
    ASSUME(stub_instant > -4000000000LL && stub_instant < 400000000000LL);
    bool iso = SHAPE <= 6 || SHAPE == 11;
    struct aws_byte_cursor c = {.len = tlen, .ptr = (uint8_t *)text};
    struct aws_date_time a, b;
    int ra = aws_date_time_init_from_str_cursor(&a, &c, iso ? (SHAPE == 1 || SHAPE == 3 || SHAPE == 6 ? AWS_DATE_FORMAT_ISO_8601_BASIC : AWS_DATE_FORMAT_ISO_8601) : AWS_DATE_FORMAT_RFC822);
    struct tm tm_a = seen_tm;
    ASSERT(ra == AWS_OP_SUCCESS, "date: text in a supported format parses with the explicit format");
    ASSERT(timegm_calls == 1 && mktime_calls == 0, "date: Z/UT/UTC/GMT designators and numeric offsets are interpreted in UTC (timegm, not mktime)");
    ASSERT(tm_a.tm_year == f_year - 1900 && tm_a.tm_mon == f_mon - 1 && tm_a.tm_mday == f_day, "date: year/month/day fields are exactly the written ones");
    ASSERT(tm_a.tm_hour == f_h && tm_a.tm_min == f_m && tm_a.tm_sec == f_s, "date: hour/minute/second fields are exactly the written ones (fractional seconds ignored)");
    long off = (long)f_oh * 3600 + (long)f_om * 60;
    ASSERT(a.timestamp == stub_instant - (neg_off ? -off : off), "date: numeric UTC offset honoured: instant = calendar(fields) - offset");
    ASSERT(a.utc_assumed && a.milliseconds == 0, "date: utc flag, no milliseconds");
    int rb = aws_date_time_init_from_str_cursor(&b, &c, AWS_DATE_FORMAT_AUTO_DETECT);
    ASSERT(rb == AWS_OP_SUCCESS && b.timestamp == a.timestamp, "date: auto-detection returns the same instant as the explicit format");
    ASSERT(seen_tm.tm_year == tm_a.tm_year && seen_tm.tm_mon == tm_a.tm_mon && seen_tm.tm_mday == tm_a.tm_mday && seen_tm.tm_hour == tm_a.tm_hour &&
               seen_tm.tm_min == tm_a.tm_min && seen_tm.tm_sec == tm_a.tm_sec, "date: auto-detection extracts the same fields");
    /* epoch views */
    ASSUME(a.timestamp >= 0 && a.timestamp <= 253402300799LL);
    ASSERT(aws_date_time_as_millis(&a) == (uint64_t)a.timestamp * 1000u, "date: millisecond view = seconds * 1000 (+ms)");
    if (a.timestamp <= 18446744073LL) ASSERT(aws_date_time_as_nanos(&a) == (uint64_t)a.timestamp * 1000000000ull, "date: nanosecond view = seconds * 10^9 (while it fits 64 bits, i.e. until 2554)");
    else ASSERT(aws_date_time_as_nanos(&a) == UINT64_MAX, "date: nanosecond view saturates once it no longer fits");
    ASSERT(aws_date_time_as_epoch_secs(&a) == (double)a.timestamp, "date: epoch seconds view");
    if (off != 0 && neg_off) WITNESS("date with negative offset");
    if (off != 0 && !neg_off) WITNESS("date with positive offset");
    WITNESS("date parsed");
}
void h_date_epoch_views(void) { /* epoch views mutually consistent for any stored instant (1970..9999) and millisecond part */
    struct aws_date_time d;
    memset(&d, 0, sizeof d);
    d.timestamp = (time_t)nd_i64();
    d.milliseconds = nd_u16();
    ASSUME(d.timestamp >= 0 && d.timestamp <= 253402300799LL && d.milliseconds < 1000);
    uint64_t ms = aws_date_time_as_millis(&d), ns = aws_date_time_as_nanos(&d);
    ASSERT(ms == (uint64_t)d.timestamp * 1000u + d.milliseconds, "epoch views: millis = secs*1000 + ms");
    if (d.timestamp <= 18446744072LL) ASSERT(ns == ms * 1000000u, "epoch views: nanos = millis * 10^6 (while it fits 64 bits)");
    ASSERT(ms / 1000u == (uint64_t)d.timestamp, "epoch views: millis/1000 == seconds");
    WITNESS("epoch views");
}
