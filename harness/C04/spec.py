SRC = ["source/xml_parser.c", "source/byte_buf.c", "source/array_list.c", "source/common.c", "source/error.c", "source/math.c"]
def spec(tier):
    units, jobs = {}, []
    for n in (3, 5):
      for acts in (33, 3, 13, 23, 20):
        u = "x%d_%d" % (n, acts)
        units[u] = dict(harness=["C04/h_xml.c"], sources=SRC, stubs=["base.c", "alloc_direct.c", "memchr.c", "memcmp_loop.c", "mem0.c"], defines={"N": n, "ACTS": acts})
        jobs.append(dict(unit=u, entry="h_xml_parse", unwind=n + 3, unwind_is_property=True, timeout=150, what="acts %02d n %d" % (acts, n)))
    return dict(units=units, jobs=jobs, meta={})
