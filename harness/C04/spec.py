# C04 — decoders and parsers on arbitrary input (total, memory-safe, documented failure channel, views inside the input)
XML_SRC = ["source/xml_parser.c", "source/byte_buf.c", "source/array_list.c", "source/common.c", "source/error.c", "source/math.c"]
ENC_SRC = ["source/encoding.c", "source/arch/intel/encoding_avx2.c", "source/byte_buf.c", "source/common.c", "source/error.c", "source/math.c"]
URI_SRC = ["source/uri.c", "source/byte_buf.c", "source/array_list.c", "source/common.c", "source/error.c", "source/math.c", "source/string.c"]
BB_SRC = ["source/byte_buf.c", "source/common.c", "source/error.c", "source/array_list.c", "source/string.c", "source/math.c"]
HOST_SRC = ["source/host_utils.c", "source/byte_buf.c", "source/common.c", "source/error.c", "source/math.c"]


def spec(tier):
    units, jobs = {}, []
    quick = tier == "quick"
    # XML: whole aws_xml_parse on N arbitrary bytes; callback action script fixed per job (abort / descend-then-abort)
    for n in ([3, 4, 5] if quick else [2, 3, 4, 5, 6, 7]):
        for acts, txt in ((33, "root callback aborts"), (23, "root callback descends (aws_xml_node_traverse), child callback aborts")):
            u = "xml_%d_%d" % (n, acts)
            units[u] = dict(harness=["C04/h_xml.c"], sources=XML_SRC, stubs=["base.c", "alloc_direct.c", "memchr.c", "memcmp_loop.c", "mem0.c"], defines={"N": n, "ACTS": acts})
            jobs.append(dict(unit=u, entry="h_xml_parse", unwind=n + 3, unwind_is_property=True, timeout=240 if quick else 2400,
                             bounds="document of %d arbitrary bytes; %s" % (n, txt),
                             what="aws_xml_parse: preamble loop, next-sibling, node declaration split, traverse loop: no out-of-bounds access, terminates, error code on failure, name/attribute views inside the input"))
    # base64 / hex / UTF-8 on arbitrary text (harness shared with C05)
    for l in ([0, 1, 3, 4, 8, 36] if quick else [0, 1, 2, 3, 4, 5, 8, 12, 32, 36]):
        u = "enc_L%d" % l
        units[u] = dict(harness=["C05/h_codec.c"], sources=ENC_SRC, stubs=["base.c", "alloc_direct.c"], defines={"L": l}, extra_inc=["stubs/simd"], native_cflags=["-mavx2"])
        jobs.append(dict(unit=u, entry="h_b64_decode_arbitrary", unwind=max(l, 8) + 36, bounds="base64 text of %d arbitrary bytes, both CPU paths" % l,
                         what="base64 decode on arbitrary text: in-bounds, verdict documented, nothing beyond output capacity"))
        if l <= 8:
            jobs.append(dict(unit=u, entry="h_hex_decode_arbitrary", unwind=l + 6, bounds="hex text of %d arbitrary bytes" % l, what="hex decode on arbitrary text"))
            if l >= 1:
                jobs.append(dict(unit=u, entry="h_utf8_chunking", unwind=l + 4, bounds="UTF-8 text of %d arbitrary bytes" % l, what="UTF-8 validator on arbitrary bytes, any chunking"))
    # unsigned integer parsing (harness shared with C01)
    units["u64"] = dict(harness=["C01/h_cur.c"], sources=BB_SRC, stubs=["base.c", "alloc_direct.c", "memchr.c", "mem0.c"], defines={"N": 8, "NDIG": 21})
    for e in ("h_parse_u64_dec", "h_parse_u64_hex"):
        jobs.append(dict(unit="u64", entry=e, unwind=23, backend="kissat", bounds="0..21 arbitrary bytes", what="unsigned-integer parsing on arbitrary bytes"))
    # percent-decoding and query-string iteration (harness shared with C13)
    for n in ([0, 1, 3, 5] if quick else range(0, 10)):
        u = "uri_N%d" % n
        units[u] = dict(harness=["C13/h_uri.c"], sources=[x for x in URI_SRC if x != "source/uri.c"], stubs=["base.c", "alloc_direct.c", "memchr.c", "mem0.c"], defines={"N": n, "PRE": 1})
        jobs.append(dict(unit=u, entry="h_uri_parse_arbitrary", unwind=n + 4, unwind_is_property=True, bounds="URI text of %d arbitrary bytes" % n,
                         what="URI parse on arbitrary bytes (state functions run in sequence; the table dispatcher is replaced, see C13): no out-of-bounds access, views inside the copy, zeroed on failure"))
        jobs.append(dict(unit=u, entry="h_uri_decode_arbitrary", unwind=n + 5, bounds="%d arbitrary bytes" % n, what="percent-decoding on arbitrary bytes"))
        jobs.append(dict(unit=u, entry="h_query_iteration", unwind=n + 5, bounds="query string of %d arbitrary bytes" % n, what="query-string iteration on arbitrary bytes; views inside the input"))
    for n in ([0, 1, 2, 4, 7] if quick else range(0, 12)):
        u = "ip_N%d" % n
        units[u] = dict(harness=["C04/h_misc.c"], sources=HOST_SRC, stubs=["base.c", "alloc_direct.c", "memchr.c", "memcmp_loop.c", "mem0.c"], defines={"N": n})
        jobs.append(dict(unit=u, entry="h_ipv6_arbitrary", unwind=n + 4, bounds="%d arbitrary bytes, plain and URI-encoded zone form" % n, what="IPv6 literal check on arbitrary bytes"))
    # CBOR: ONE decoder step (a single cbor_stream_decode call) on arbitrary bytes; harness and unit definition shared with C10
    import importlib.util, os
    c10s = importlib.util.spec_from_file_location("c10spec", os.path.join(os.path.dirname(os.path.dirname(os.path.abspath(__file__))), "C10", "spec.py"))
    c10 = importlib.util.module_from_spec(c10s); c10s.loader.exec_module(c10)
    c10.FPR = c10.cbor_fp_restrictions()
    for n in ([10] if quick else [10, 12]):
        un = c10.mkunit(units, L=2, N=n)
        jobs.append(dict(unit=un, entry="h_cbor_decode_first", unwind=n + 2, timeout=600 if quick else 2400,
                         bounds="%d arbitrary bytes, first item only (one cbor_stream_decode call)" % n,
                         what="CBOR decoder, first item of an arbitrary byte string: in-bounds, string views inside the input, registered error"))
    meta = dict(
        functions_encoded=["cbor.c + libcbor streaming.c/loaders.c: aws_cbor_decoder_peek_type / pop_next_bytes/text / consume_next_single_element (first item)", "xml_parser.c: aws_xml_parse, s_node_next_sibling, s_load_node_decl, aws_xml_node_traverse, accessors", "encoding.c + encoding_avx2.c decoders",
                           "byte_buf.c s_read_unsigned", "uri.c: aws_byte_buf_append_decoding_uri, aws_query_string_next_param/params", "host_utils.c aws_host_utils_is_ipv6"],
        bounds="XML documents of 3..5 (quick) / 2..7 bytes; base64 text up to 36; hex/UTF-8 up to 8; digits up to 21; URI/query up to 5/9; IPv6 up to 7/11",
        stubs=["base.c, alloc_direct.c, memchr.c, memcmp_loop.c, mem0.c", "stubs/simd lane models for the AVX2 decoder"],
        out=["NOT DECIDED (encodings do not fit: >12 GB or >240 s even at 2 input bytes): JSON (cJSON), the CBOR decoder beyond the first item of the input (sequences, nesting, whole-item skipping), the URI table dispatcher s_init_from_uri_str, "
             "s_advance_to_closing_tag (XML body / skip paths)", "date-time parsing, UUID, IPv4 (sscanf-based)", "inputs longer than the bounds"],
        assumptions=["XML callback behaviour restricted to the two scripts per job (abort; descend then abort)"])
    pre = [dict(name="SIMD models == hardware intrinsics", timeout=120,
                cmd="gcc -O1 -mavx2 -w -o $VERIF_SCRATCH/simd_validate $VERIF/tools/simd_validate.c && $VERIF_SCRATCH/simd_validate")]
    return dict(units=units, jobs=jobs, meta=meta, prechecks=pre, max_parallel=12)
