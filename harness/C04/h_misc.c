/* C04 — small validators on arbitrary bytes */
#include "verif.h"
#include <aws/common/host_utils.h>
#include <aws/common/byte_buf.h>
#ifndef N
#    define N 4
#endif
void h_ipv6_arbitrary(void) {
    uint8_t *t = verif_malloc(N ? N : 1); /* exactly N bytes */
    ND_FILL(t, N, N);
    struct aws_byte_cursor c = {.len = N, .ptr = N ? t : (nd_bool() ? t : NULL)};
    bool enc = nd_bool();
    bool r = aws_host_utils_is_ipv6(c, enc);
    if (r) {
        ASSERT(N >= 2, "ipv6: accepted text has at least 2 characters");
        bool has_colon = false;
        for (size_t i = 0; i < N; ++i) if (t[i] == ':') has_colon = true;
        ASSERT(has_colon, "ipv6: accepted text contains a colon");
        WITNESS("ipv6 accepted");
    } else {
        WITNESS("ipv6 rejected");
    }
}
