/* C04 — XML parser on ARBITRARY bytes: whole program, doc of N symbolic bytes (constant N per job),
 * the callback's per-node action (skip / read body / descend / abort) chosen by the solver. */
#include "verif.h"
#include <aws/common/xml_parser.h>
#include <aws/common/byte_buf.h>
#include <aws/common/error.h>
#ifndef N
#    define N 4
#endif
static const uint8_t *doc_base;
static unsigned nodes_seen;
static void inside(struct aws_byte_cursor c, const char *what) {
    (void)what;
    if (c.len == 0) return;
    ASSERT(c.ptr >= doc_base && (size_t)(c.ptr - doc_base) <= N && c.len <= N - (size_t)(c.ptr - doc_base), "xml: every view handed to the callback lies inside the input");
}
static int on_node(struct aws_xml_node *node, void *ud) {
    (void)ud;
    nodes_seen++;
    inside(aws_xml_node_get_name(node), "name");
    size_t na = aws_xml_node_get_num_attributes(node);
    ASSERT(na <= 10, "xml: at most 10 attributes");
    for (size_t i = 0; i < 2; ++i)
        if (i < na) {
            struct aws_xml_attribute a = aws_xml_node_get_attribute(node, i);
            inside(a.name, "attr name");
            inside(a.value, "attr value");
        }
#ifdef ACTS
    /* action script fixed per job: digit k of ACTS = action at the k-th reported node (then abort) */
    unsigned act = nodes_seen == 1 ? (ACTS / 10) % 10 : nodes_seen == 2 ? ACTS % 10 : 3;
#else
    unsigned act = nd_u8();
    ASSUME(act < 4);
#endif
    if (act == 0) return AWS_OP_SUCCESS; /* skip */
    if (act == 1) {
        struct aws_byte_cursor body = {0};
        int rc = aws_xml_node_as_body(node, &body);
        if (rc == AWS_OP_SUCCESS) inside(body, "body");
        return rc;
    }
    if (act == 2) return aws_xml_node_traverse(node, on_node, NULL);
    return aws_raise_error(AWS_ERROR_INVALID_ARGUMENT); /* callback aborts */
}
void h_xml_parse(void) {
    uint8_t *doc = verif_malloc(N ? N : 1); /* exactly N bytes: any over-read is an error */
    ND_FILL(doc, N, N);
    doc_base = doc;
    struct aws_xml_parser_options opt = {.doc = {.len = N, .ptr = doc}, .max_depth = 0, .on_root_encountered = on_node, .user_data = NULL};
    bool small_depth = nd_bool();
    if (small_depth) opt.max_depth = 1;
    int rc = aws_xml_parse(verif_allocator(), &opt);
    ASSERT(rc == AWS_OP_SUCCESS || rc == AWS_OP_ERR, "xml: returns success or error");
    if (rc == AWS_OP_ERR) ASSERT(aws_last_error() != 0, "xml: failure reports a registered error code");
    if (nodes_seen >= 2) WITNESS("xml: two nodes reported");
    if (rc == AWS_OP_SUCCESS && nodes_seen >= 1) WITNESS("xml: success with a node");
    WITNESS("xml parse returns");
}
