/* C05 — base64 / hex / UTF-8 codecs against independent reference models, both CPU paths.
 * N (input bytes) / L (text chars) / PRE (pre-existing output length) are constants per job so
 * that every object has a constant size; all CONTENT is symbolic. */
#include "verif.h"
#include <aws/common/encoding.h>
#include <aws/common/byte_buf.h>
#include <aws/common/error.h>
#include <string.h>
#ifndef N
#    define N 3
#endif
#ifndef L
#    define L 4
#endif
#ifndef PRE
#    define PRE 0
#endif
bool verif_avx2; /* which implementation aws_base64_* dispatches to */
bool aws_common_private_has_avx2(void) { return verif_avx2; }

/* ---------- reference models (RFC 4648, written independently of the library tables) ---------- */
static uint8_t ref_b64_char(uint8_t v) { return v < 26 ? 'A' + v : v < 52 ? 'a' + (v - 26) : v < 62 ? '0' + (v - 52) : v == 62 ? '+' : '/'; }
static int ref_b64_val(uint8_t c) { return (c >= 'A' && c <= 'Z') ? c - 'A' : (c >= 'a' && c <= 'z') ? c - 'a' + 26 : (c >= '0' && c <= '9') ? c - '0' + 52 : c == '+' ? 62 : c == '/' ? 63 : -1; }
static size_t ref_b64_encode(const uint8_t *in, size_t n, uint8_t *out) {
    size_t o = 0;
    for (size_t i = 0; i < n; i += 3) {
        uint32_t b = (uint32_t)in[i] << 16 | (i + 1 < n ? (uint32_t)in[i + 1] << 8 : 0) | (i + 2 < n ? in[i + 2] : 0);
        out[o++] = ref_b64_char((b >> 18) & 63);
        out[o++] = ref_b64_char((b >> 12) & 63);
        out[o++] = i + 1 < n ? ref_b64_char((b >> 6) & 63) : '=';
        out[o++] = i + 2 < n ? ref_b64_char(b & 63) : '=';
    }
    return o;
}
/* strict canonical decoder: returns decoded length or -1 */
static long ref_b64_decode(const uint8_t *t, size_t len, uint8_t *out) {
    if (len % 4) return -1;
    size_t o = 0;
    for (size_t i = 0; i < len; i += 4) {
        int a = ref_b64_val(t[i]), b = ref_b64_val(t[i + 1]), c = ref_b64_val(t[i + 2]), d = ref_b64_val(t[i + 3]);
        bool last = i + 4 == len;
        if (a < 0 || b < 0) return -1;
        if (last && t[i + 2] == '=' && t[i + 3] == '=') {
            if (b & 0x0F) return -1;
            out[o++] = (uint8_t)(a << 2 | b >> 4);
        } else if (last && t[i + 3] == '=') {
            if (c < 0 || (c & 0x03)) return -1;
            out[o++] = (uint8_t)(a << 2 | b >> 4);
            out[o++] = (uint8_t)(b << 4 | c >> 2);
        } else {
            if (c < 0 || d < 0) return -1;
            out[o++] = (uint8_t)(a << 2 | b >> 4);
            out[o++] = (uint8_t)(b << 4 | c >> 2);
            out[o++] = (uint8_t)(c << 6 | d);
        }
    }
    return (long)o;
}
static int ref_hex_val(uint8_t c) { return (c >= '0' && c <= '9') ? c - '0' : (c >= 'a' && c <= 'f') ? c - 'a' + 10 : (c >= 'A' && c <= 'F') ? c - 'A' + 10 : -1; }

/* ---------- length prediction: all 64-bit n ---------- */
void h_len_funcs(void) {
    size_t n = nd_size(), r = nd_size(), r0 = r;
    int rc = aws_hex_compute_encoded_len(n, &r);
    ASSERT((rc == AWS_OP_SUCCESS) == (n <= SIZE_MAX / 2), "hex encoded len: overflow flagged exactly when 2n does not fit");
    if (rc == AWS_OP_SUCCESS) ASSERT(r == 2 * n, "hex encoded len == 2n"); else ASSERT(r == r0 && aws_last_error() == AWS_ERROR_OVERFLOW_DETECTED, "hex encoded len overflow");
    r = r0;
    rc = aws_hex_compute_decoded_len(n, &r);
    ASSERT((rc == AWS_OP_SUCCESS) == (n != SIZE_MAX), "hex decoded len: overflow only for SIZE_MAX");
    if (rc == AWS_OP_SUCCESS) ASSERT(r == n / 2 + (n & 1), "hex decoded len == ceil(n/2)");
    r = r0;
    rc = aws_base64_compute_encoded_len(n, &r);
    unsigned __int128 ex = ((unsigned __int128)n + 2) / 3 * 4;
    ASSERT((rc == AWS_OP_SUCCESS) == (ex <= SIZE_MAX), "base64 encoded len: overflow flagged exactly when 4*ceil(n/3) does not fit");
    if (rc == AWS_OP_SUCCESS) ASSERT(r == (size_t)ex, "base64 encoded len == 4*ceil(n/3)");
    if (ex > SIZE_MAX && n <= SIZE_MAX - 2) WITNESS("base64 len overflows in the multiplication");
    WITNESS("len funcs");
}

/* ---------- base64 encode: exact canonical text, exact length, capacity handling, round trip ---------- */
static void b64_encode(bool avx2) {
    verif_avx2 = avx2;
    enum { ENC = (N + 2) / 3 * 4 };
    uint8_t *in = verif_malloc(N); /* exactly N bytes: any over-read is an error */
    uint8_t ref[ENC + 1];
    ND_FILL(in, N, N);
    size_t enc = ref_b64_encode(in, N, ref);
    ASSERT(enc == ENC, "reference length");
    size_t pl = 0;
    ASSERT(aws_base64_compute_encoded_len(N, &pl) == AWS_OP_SUCCESS && pl == ENC, "compute_encoded_len == bytes produced");
    bool short_by_one = nd_bool();
    size_t cap = PRE + ENC - ((short_by_one && ENC > 0) ? 1 : 0) + ((!short_by_one && nd_bool()) ? 2 : 0);
    uint8_t store[PRE + ENC + 3];
    uint8_t pre[PRE + 1];
    for (size_t i = 0; i < PRE; ++i) store[i] = pre[i] = nd_u8();
    struct aws_byte_buf out = {.buffer = verif_malloc(PRE + ENC + 2), .len = PRE, .capacity = cap, .allocator = NULL};
    for (size_t i = 0; i < PRE; ++i) out.buffer[i] = pre[i];
    uint8_t guard = nd_u8();
    out.buffer[cap < PRE + ENC + 2 ? cap : PRE + ENC + 1] = guard; /* first byte beyond capacity */
    struct aws_byte_cursor c = {.len = N, .ptr = N ? in : NULL};
    int rc = aws_base64_encode(&c, &out);
    if (cap < PRE + ENC) {
        ASSERT(rc == AWS_OP_ERR && aws_last_error() == AWS_ERROR_SHORT_BUFFER, "encode: one-short capacity => SHORT_BUFFER");
        ASSERT(out.len == PRE, "encode failure: length unchanged");
        WITNESS("encode short buffer");
    } else {
        ASSERT(rc == AWS_OP_SUCCESS, "encode succeeds when capacity suffices (incl. exact fit)");
        ASSERT(out.len == PRE + ENC, "encode: length grows by exactly the predicted length");
        for (size_t i = 0; i < ENC; ++i) ASSERT(out.buffer[PRE + i] == ref[i], "encode: canonical RFC 4648 text (alphabet, '=' padding)");
        /* round trip through the decoder of the same path */
        uint8_t *dec = verif_malloc(N ? N : 1);
        struct aws_byte_buf d = {.buffer = N ? dec : NULL, .len = 0, .capacity = N, .allocator = NULL};
        struct aws_byte_cursor t = {.len = ENC, .ptr = out.buffer + PRE};
        size_t dl = 99;
        ASSERT(aws_base64_compute_decoded_len(&t, &dl) == AWS_OP_SUCCESS && dl == N, "compute_decoded_len of encoded text == original length");
        ASSERT(aws_base64_decode(&t, &d) == AWS_OP_SUCCESS && d.len == N, "decode(encode(x)) succeeds with the original length");
        for (size_t i = 0; i < N; ++i) ASSERT(dec[i] == in[i], "decode(encode(x)) == x");
        if (cap == PRE + ENC) WITNESS("encode exact fit");
    }
    for (size_t i = 0; i < PRE; ++i) ASSERT(out.buffer[i] == pre[i], "encode: bytes already in the buffer are untouched");
    if (cap < PRE + ENC + 2) ASSERT(out.buffer[cap] == guard, "encode: nothing written beyond capacity");
}
void h_b64_encode_portable(void) { b64_encode(false); }
void h_b64_encode_avx2(void) { b64_encode(true); }

/* ---------- base64 decode of ARBITRARY text: verdict/bytes vs strict model, both paths agree ---------- */
void h_b64_decode_arbitrary(void) {
    uint8_t *t = verif_malloc(L ? L : 1);
    ND_FILL(t, L, L);
    uint8_t model[L / 4 * 3 + 3];
    long ml = ref_b64_decode(t, L, model);
    struct aws_byte_cursor tc = {.len = L, .ptr = t};
    size_t dl = 0;
    int rl = aws_base64_compute_decoded_len(&tc, &dl);
    if (L % 4) ASSERT(rl == AWS_OP_ERR && aws_last_error() == AWS_ERROR_INVALID_BASE64_STR, "decoded_len: length not a multiple of 4 is rejected");
    enum { CAP = L / 4 * 3 + 1 };
    uint8_t canary = nd_u8();
    int rc[2];
    struct aws_byte_buf o[2];
    for (int p = 0; p < 2; ++p) {
        verif_avx2 = p == 1;
        o[p].buffer = verif_malloc(CAP);
        for (size_t i = 0; i < CAP; ++i) o[p].buffer[i] = canary; /* a byte the decoder did not write keeps the symbolic canary */
        o[p].len = 0;
        o[p].capacity = rl == AWS_OP_SUCCESS ? dl : CAP - 1; /* exactly the predicted size */
        o[p].allocator = NULL;
        rc[p] = aws_base64_decode(&tc, &o[p]);
        if (rc[p] != AWS_OP_SUCCESS) ASSERT(aws_last_error() == AWS_ERROR_INVALID_BASE64_STR, "decode failure reports INVALID_BASE64_STR");
        ASSERT(o[p].buffer[o[p].capacity] == canary, "decode: nothing written beyond capacity");
    }
    ASSERT((rc[0] == AWS_OP_SUCCESS) == (rc[1] == AWS_OP_SUCCESS), "decode: portable and vectorised paths give the same verdict");
    ASSERT((rc[0] == AWS_OP_SUCCESS) == (ml >= 0), "decode: accepts exactly the well-formed canonical texts (strict RFC 4648 model)");
    if (rc[0] == AWS_OP_SUCCESS && rc[1] == AWS_OP_SUCCESS && ml >= 0) {
        ASSERT(o[0].len == (size_t)ml && o[1].len == (size_t)ml, "decode: reported length equals the model's");
        for (size_t i = 0; i < CAP - 1; ++i)
            if (i < (size_t)ml) {
                ASSERT(o[0].buffer[i] == model[i], "decode(portable): every reported byte was written and equals the model");
                ASSERT(o[1].buffer[i] == model[i], "decode(avx2): every reported byte was written and equals the model");
            }
        if (L >= 4 && t[L - 1] == '=' && t[L - 2] != '=') WITNESS("decode one pad");
        if (L >= 4 && t[L - 2] == '=') WITNESS("decode two pads");
        if (L == 0) WITNESS("decode empty");
    } else if (L >= 4 && L % 4 == 0) {
        if (t[L - 2] == '=' && t[L - 1] != '=') WITNESS("decode rejects '=' followed by data");
    } else {
        WITNESS("decode rejects bad length");
    }
}

/* ---------- hex ---------- */
void h_hex(void) {
    uint8_t *in = verif_malloc(N ? N : 1);
    ND_FILL(in, N, N);
    struct aws_byte_cursor c = {.len = N, .ptr = in};
    bool short1 = nd_bool();
    uint8_t *ob = verif_malloc(2 * N + 1);
    struct aws_byte_buf out = {.buffer = ob, .len = 0, .capacity = 2 * N - ((short1 && N) ? 1 : 0), .allocator = NULL};
    int rc = aws_hex_encode(&c, &out);
    if (short1 && N) {
        ASSERT(rc == AWS_OP_ERR && aws_last_error() == AWS_ERROR_SHORT_BUFFER && out.len == 0, "hex encode: short buffer");
        WITNESS("hex short");
        return;
    }
    ASSERT(rc == AWS_OP_SUCCESS && out.len == 2 * N, "hex encode: exactly 2n characters");
    for (size_t i = 0; i < N; ++i) {
        uint8_t hi = in[i] >> 4, lo = in[i] & 15;
        ASSERT(ob[2 * i] == (hi < 10 ? '0' + hi : 'a' + hi - 10) && ob[2 * i + 1] == (lo < 10 ? '0' + lo : 'a' + lo - 10), "hex encode: lowercase digits");
    }
    uint8_t *db = verif_malloc(N ? N : 1);
    struct aws_byte_buf d = {.buffer = N ? db : NULL, .len = 0, .capacity = N, .allocator = NULL};
    struct aws_byte_cursor t = {.len = 2 * N, .ptr = ob};
    ASSERT(aws_hex_decode(&t, &d) == AWS_OP_SUCCESS && d.len == N, "hex decode(encode(x)) length");
    for (size_t i = 0; i < N; ++i) ASSERT(db[i] == in[i], "hex decode(encode(x)) == x");
    WITNESS("hex round trip");
}
void h_hex_decode_arbitrary(void) {
    uint8_t *t = verif_malloc(L ? L : 1);
    ND_FILL(t, L, L);
    enum { DL = (L + 1) / 2 };
    uint8_t canary = nd_u8();
    uint8_t *ob = verif_malloc(DL + 1);
    for (size_t i = 0; i < DL + 1; ++i) ob[i] = canary;
    struct aws_byte_buf out = {.buffer = ob, .len = 0, .capacity = DL, .allocator = NULL};
    struct aws_byte_cursor tc = {.len = L, .ptr = t};
    bool ok = true;
    for (size_t i = 0; i < L; ++i) if (ref_hex_val(t[i]) < 0) ok = false;
    int rc = aws_hex_decode(&tc, &out);
    ASSERT((rc == AWS_OP_SUCCESS) == ok, "hex decode: accepts exactly strings of hex digits");
    ASSERT(ob[DL] == canary, "hex decode: nothing beyond capacity");
    if (ok) {
        ASSERT(out.len == DL, "hex decode: ceil(len/2) bytes");
        size_t k = 0;
        for (size_t i = 0; i < DL; ++i) {
            int hi = (L % 2 && i == 0) ? 0 : ref_hex_val(t[k++]);
            int lo = ref_hex_val(t[k++]);
            ASSERT(ob[i] == (uint8_t)(hi << 4 | lo), "hex decode: value (odd length = leading nibble)");
        }
        if (L % 2) WITNESS("hex odd length");
        WITNESS("hex decode ok");
    } else {
        ASSERT(aws_last_error() == AWS_ERROR_INVALID_HEX_STR, "hex decode: error code");
    }
}

/* ---------- UTF-8: verdict and code points independent of chunking ---------- */
static uint32_t cps[2][L + 1];
static size_t ncp[2];
static int which;
static int on_cp(uint32_t cp, void *ud) { (void)ud; if (ncp[which] < L + 1) cps[which][ncp[which]] = cp; ncp[which]++; return 0; }
void h_utf8_chunking(void) {
    uint8_t *t = verif_malloc(L ? L : 1);
    ND_FILL(t, L, L);
    bool with_cb = nd_bool();
    struct aws_utf8_decoder_options opt = {.on_codepoint = with_cb ? on_cp : NULL, .user_data = NULL};
    which = 0;
    int whole = aws_decode_utf8(aws_byte_cursor_from_array(t, L), &opt);
    size_t s1 = nd_size(), s2 = nd_size();
    ASSUME(s1 <= s2 && s2 <= L);
    struct aws_utf8_decoder *d = aws_utf8_decoder_new(verif_allocator(), &opt);
    which = 1;
    int r = aws_utf8_decoder_update(d, aws_byte_cursor_from_array(t, s1));
    if (r == AWS_OP_SUCCESS) r = aws_utf8_decoder_update(d, aws_byte_cursor_from_array(t + s1, s2 - s1));
    if (r == AWS_OP_SUCCESS) r = aws_utf8_decoder_update(d, aws_byte_cursor_from_array(t + s2, L - s2));
    if (r == AWS_OP_SUCCESS) r = aws_utf8_decoder_finalize(d);
    ASSERT((whole == AWS_OP_SUCCESS) == (r == AWS_OP_SUCCESS), "utf8: verdict does not depend on how the text is split across updates");
    if (r != AWS_OP_SUCCESS) ASSERT(aws_last_error() == AWS_ERROR_INVALID_UTF8, "utf8: error code");
    if (whole == AWS_OP_SUCCESS && with_cb) {
        ASSERT(ncp[0] == ncp[1], "utf8: same number of code points reported");
        for (size_t i = 0; i < L; ++i) if (i < ncp[0]) ASSERT(cps[0][i] == cps[1][i], "utf8: same code points reported");
        if (ncp[0] < L && s1 > 0 && s1 < L && (t[s1] & 0xC0) == 0x80) WITNESS("utf8 split inside a multi-byte sequence");
    }
    if (whole != AWS_OP_SUCCESS && s1 > 0 && s1 < L && (t[s1 - 1] & 0x80)) WITNESS("utf8 invalid text split after a lead byte");
    aws_utf8_decoder_destroy(d);
    WITNESS("utf8");
}
