# C05 — base64 / hex / UTF-8 codecs
SRC = ["source/encoding.c", "source/arch/intel/encoding_avx2.c", "source/byte_buf.c", "source/common.c", "source/error.c", "source/math.c"]
STUBS = ["base.c", "alloc_direct.c"]


def spec(tier):
    units, jobs = {}, []

    def unit(**d):
        name = "c_" + "_".join("%s%s" % (k, v) for k, v in sorted(d.items()))
        units[name] = dict(harness=["C05/h_codec.c"], sources=SRC, stubs=STUBS, defines=d, extra_inc=["stubs/simd"],
                           native_cflags=["-mavx2"], native_stubs=STUBS)
        return name
    lane = {"_mm256_": 33, "simd_": 33}
    uws = {"M": 33}
    quick = tier == "quick"
    jobs.append(dict(unit=unit(N=1), entry="h_len_funcs", unwind=2, bounds="n unconstrained 64-bit", what="length predictions exact for all n", backend="kissat"))
    # encode + round trip
    port_ns = range(0, 8) if quick else range(0, 27)
    avx_ns = [0, 1, 2, 3, 5, 7, 22, 23, 24, 25, 32, 33, 46] if quick else list(range(0, 27)) + [31, 32, 33, 47, 48, 49, 50]
    for n in sorted(set(port_ns) | set(avx_ns)):
        for pre in ((0, 3) if n in (0, 1, 2, 3, 24, 32) else (0,)):
            u = unit(N=n, PRE=pre)
            if n in port_ns:
                jobs.append(dict(unit=u, entry="h_b64_encode_portable", unwind=max(n, 12) + 36,
                                 bounds="input %d bytes all symbolic, %d bytes already in the output, capacity exact / one short / +2" % (n, pre),
                                 what="portable base64 encode == RFC 4648 reference; decode(encode(x)) == x"))
            if n in avx_ns:
                jobs.append(dict(unit=u, entry="h_b64_encode_avx2", unwind=max(n, 12) + 36, timeout=240 if quick else 2400,
                                 bounds="input %d bytes all symbolic, %d bytes already in the output, capacity exact / one short / +2" % (n, pre),
                                 what="AVX2 base64 encode (via validated lane models) == RFC 4648 reference; decode(encode(x)) == x"))
    for l in ([0, 1, 2, 3, 4, 5, 8, 32, 36] if quick else [0, 1, 2, 3, 4, 5, 6, 7, 8, 12, 36]):
        u = unit(L=l)
        jobs.append(dict(unit=u, entry="h_b64_decode_arbitrary", unwind=max(l, 8) + 36, timeout=240 if quick else 2400,
                         bounds="text of %d arbitrary bytes, output capacity exactly the predicted size, symbolic canary" % l,
                         what="decode verdict/bytes == strict model; portable == AVX2; reported length <= bytes written"))
    for n in ([0, 1, 2, 5] if quick else range(0, 13)):
        jobs.append(dict(unit=unit(N=n), entry="h_hex", unwind=2 * n + 6, bounds="%d bytes symbolic" % n, what="hex encode lowercase, exact length, round trip"))
    for l in ([0, 1, 2, 3, 6] if quick else range(0, 13)):
        jobs.append(dict(unit=unit(L=l), entry="h_hex_decode_arbitrary", unwind=l + 6, bounds="text of %d arbitrary bytes" % l, what="hex decode vs model incl. odd length"))
    for l in ([1, 2, 3, 4, 5] if quick else [1, 2, 3, 4, 5, 6, 7, 8]):
        jobs.append(dict(unit=unit(L=l), entry="h_utf8_chunking", unwind=l + 4, bounds="text of %d arbitrary bytes, two symbolic split points, with/without callback" % l,
                         what="UTF-8 verdict and code points independent of chunking"))
    meta = dict(functions_encoded=["source/encoding.c (hex, base64, utf8)", "source/arch/intel/encoding_avx2.c through stubs/simd/immintrin.h lane models"],
                bounds="see per-obligation bounds; portable encode n<=7 quick / 26 thorough; AVX2 n up to 25 quick / 50 thorough; decode text up to 8 / 36",
                stubs=["aws_common_private_has_avx2() returns a harness-chosen constant (cpuid.c not compiled)",
                       "stubs/simd/immintrin.h: 20 intrinsics as lane-wise C, validated against the CPU on every run (precheck)", "base.c, alloc_direct.c"],
                out=["inputs longer than the bounds (the vector loop body is the same for every stride: argument, not solver result)", "non-x86 builds", "Unicode range checks beyond what aws_utf8 implements"],
                assumptions=["the intrinsic models equal the hardware (checked on 20000 vectors per intrinsic on every run)"])
    pre = [dict(name="SIMD models == hardware intrinsics", timeout=120,
                cmd="gcc -O1 -mavx2 -w -o $VERIF_SCRATCH/simd_validate $VERIF/tools/simd_validate.c && $VERIF_SCRATCH/simd_validate")]
    return dict(units=units, jobs=jobs, meta=meta, prechecks=pre)
