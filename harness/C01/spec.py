# C01 — byte buffers and cursors
SRC = ["source/byte_buf.c", "source/common.c", "source/error.c", "source/array_list.c", "source/string.c", "source/math.c"]

BUF = ["h_init", "h_init_copy", "h_init_copy_from_cursor", "h_init_cache_and_update_cursors", "h_append", "h_append_alias", "h_append_dynamic_alias",
       "h_append_with_lookup", "h_append_dynamic", "h_append_byte_dynamic", "h_append_null_terminator",
       "h_append_and_update", "h_cat", "h_reserve", "h_reserve_relative", "h_reserve_smart",
       "h_reserve_smart_relative", "h_write", "h_write_from_whole_buffer", "h_write_from_whole_cursor",
       "h_write_to_capacity", "h_write_u8", "h_write_u8_n", "h_write_be16", "h_write_be24", "h_write_be32",
       "h_write_be64", "h_write_float", "h_buf_advance", "h_reset_zero_cleanup", "h_from_constructors"]
CUR = ["h_cursor_advance", "h_cursor_advance_hugecursor", "h_nospec_mask", "h_cursor_read",
       "h_cursor_read_and_fill_buffer", "h_read_u8", "h_read_be16", "h_read_be24", "h_read_be32", "h_read_be64",
       "h_read_float", "h_read_hex_u8", "h_next_split_step", "h_next_split", "h_split_on_char_n", "h_find_exact", "h_trim",
       "h_eq_cursor", "h_eq_starts_with", "h_eq_buf", "h_eq_c_str", "h_compare",
       "h_parse_u64_dec", "h_parse_u64_hex"]


def spec(tier):
    n = 8 if tier == "quick" else 12
    ndig = 21 if tier == "quick" else 24
    nsmall = 4 if tier == "quick" else 6
    SMALL = {"h_next_split", "h_find_exact", "h_split_on_char_n", "h_sequence", "h_find_exact"}
    units = {
        "buf": dict(harness=["C01/h_buf.c"], sources=SRC, stubs=["base.c", "alloc_direct.c", "memchr.c", "mem0.c"],
                    defines={"N": n, "VERIF_ALLOC_TRACK": None}),
        "bufalias": dict(harness=["C01/h_buf.c"], sources=SRC, stubs=["base.c", "alloc_direct.c", "memchr.c", "memcpy_loop.c"],
                         defines={"N": n, "VERIF_ALLOC_TRACK": None}),
        "cursmall": dict(harness=["C01/h_cur.c"], sources=SRC, stubs=["base.c", "alloc_direct.c", "memchr.c", "mem0.c", "memcmp_loop.c"],
                         defines={"N": nsmall, "NDIG": ndig}),
        "bufsmall": dict(harness=["C01/h_buf.c"], sources=SRC, stubs=["base.c", "alloc_direct.c", "memchr.c", "mem0.c"],
                         defines={"N": nsmall, "VERIF_ALLOC_TRACK": None}),
        "cur": dict(harness=["C01/h_cur.c"], sources=SRC, stubs=["base.c", "alloc_direct.c", "memchr.c", "mem0.c"],
                    defines={"N": n, "NDIG": ndig}),
    }
    jobs = []
    uw = max(n, 8) + 4
    for e in BUF:
        jobs.append(dict(unit="bufalias" if e.endswith("_alias") else ("bufsmall" if e in SMALL else "buf"), entry=e, unwind=max(uw, 3 * n + 9) if e == "h_sequence" else uw,
                         bounds="capacity/len 0..%d, all bytes symbolic, size arguments unconstrained 64-bit" % n,
                         what="one-step from arbitrary valid buffer: " + e))
    for j in jobs:
        if j["entry"] == "h_append_with_lookup":
            j["unwindset"] = {"h_append_with_lookup.0": 258}
    for e in CUR:
        j = dict(unit="cursmall" if e in SMALL else "cur", entry=e, unwind=uw,
                 bounds="cursor length 0..%d, all bytes symbolic, len arguments unconstrained 64-bit" % (n + 1),
                 what="one-step from arbitrary valid cursor: " + e)
        if e in ("h_next_split", "h_next_split_step", "h_split_on_char_n"):
            # forming end+1 in `substr->ptr += substr->len + 1` and comparing it: pointer-formation UB by the
            # letter of C, no memory is touched; reported as advisory, never part of the verdict (DESIGN C01)
            j["advisory"] = ["pointer relation: pointer outside object bounds in substr->ptr"]
        if e in SMALL:
            j["unwind"] = nsmall + (5 if e == "h_next_split" else 3)
        if e.startswith("h_parse_u64"):
            j["unwind"] = ndig + 2
            j["backend"] = "kissat"
            j["bounds"] = "digit strings of 0..%d arbitrary bytes, dec and hex" % ndig
        jobs.append(j)
    meta = dict(
        functions_encoded=["every function of source/byte_buf.c except aws_byte_buf_init_from_file*",
                           "aws_secure_zero (common.c)", "aws_array_list_init_static/push_back (array_list.c)"],
        bounds="N=%d content bytes; capacities/lengths 0..N(+1); scalar size arguments unconstrained 64-bit" % n,
        stubs=["base.c: aws_fatal_assert => assertion failure; no logger",
               "alloc_direct.c: aws_mem_acquire/realloc/release -> malloc/free, never NULL, realloc always moves; "
               "tracks block sizes to check zero-before-release"],
        out=["aws_byte_buf_init_from_file* (file I/O)", "buffers with capacity > %d" % n,
             "allocation failure paths (the library aborts on OOM)",
             "pointer-formation one-past+1 in aws_byte_cursor_next_split is not part of the verdict "
             "(--pointer-overflow-check is off)"],
        assumptions=["harness pre-states are exactly aws_byte_buf_is_valid / aws_byte_cursor_is_valid states"],
    )
    return dict(units=units, jobs=jobs, meta=meta)
