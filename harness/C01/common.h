/* shared helpers for the C01 harnesses: arbitrary VALID buffers/cursors + snapshots */
#ifndef C01_COMMON_H
#define C01_COMMON_H
#include "verif.h"
#include <aws/common/byte_buf.h>
#include <aws/common/array_list.h>
#include <aws/common/error.h>
#include <string.h>
#ifndef N
#    define N 8
#endif
#define HALF (SIZE_MAX >> 1)

struct bctx {
    struct aws_byte_buf b;    /* the object under test */
    struct aws_byte_buf snap; /* field-wise snapshot */
    size_t idx;               /* nondet index < old len (if old len > 0) */
    uint8_t old;              /* byte stored there before the call */
    uint8_t shadow[N + 1];    /* copy of all old bytes (len <= N) */
};

/* arbitrary valid buffer: capacity 0..N, len <= capacity, all capacity bytes symbolic,
 * owned (allocator set) or not */
static inline void mk_buf(struct bctx *c, int owned /*1 yes,0 no,2 nondet*/) {
    size_t cap = nd_size();
    ASSUME(cap <= N);
    size_t len = nd_size();
    ASSUME(len <= cap);
    c->b.capacity = cap;
    c->b.len = len;
    c->b.buffer = cap ? verif_malloc(cap) : NULL;
    ND_FILL(c->b.buffer, cap, N);
    bool own = owned == 1 ? true : (owned == 0 ? false : nd_bool());
    c->b.allocator = own ? verif_allocator() : NULL;
    c->snap = c->b;
    c->idx = 0;
    c->old = 0;
    for (size_t i = 0; i < N; ++i)
        if (i < len) c->shadow[i] = c->b.buffer[i];
    if (len > 0) {
        c->idx = nd_size();
        ASSUME(c->idx < len);
        c->old = c->b.buffer[c->idx];
    }
}
static inline void chk_buf_valid(const struct aws_byte_buf *b) {
    ASSERT(b->len <= b->capacity, "buffer: len <= capacity");
    ASSERT((b->capacity == 0) == (b->buffer == NULL), "buffer: capacity 0 iff buffer NULL");
    VERIF_CBMC_ONLY(ASSERT(b->capacity == 0 || __CPROVER_w_ok(b->buffer, b->capacity), "buffer: capacity bytes writable");)
}
/* all old bytes still there (buffer may have moved) */
static inline void chk_prefix(const struct bctx *c) {
    ASSERT(c->b.len >= c->snap.len, "buffer: length did not shrink");
    if (c->snap.len > 0) ASSERT(c->b.buffer[c->idx] == c->old, "buffer: previously written byte unchanged");
}
static inline void chk_buf_unchanged(const struct bctx *c) {
    ASSERT(c->b.buffer == c->snap.buffer, "failed op: buffer pointer unchanged");
    ASSERT(c->b.len == c->snap.len, "failed op: buffer len unchanged");
    ASSERT(c->b.capacity == c->snap.capacity, "failed op: buffer capacity unchanged");
    ASSERT(c->b.allocator == c->snap.allocator, "failed op: buffer allocator unchanged");
    if (c->snap.len > 0) ASSERT(c->b.buffer[c->idx] == c->old, "failed op: buffer bytes unchanged");
}

struct cctx {
    struct aws_byte_cursor c;
    struct aws_byte_cursor snap;
    uint8_t *base; /* start of the object the cursor views */
    uint8_t shadow[N + 2];
};
/* arbitrary valid cursor: len 0..N+1; len 0 has NULL or non-NULL ptr; bytes symbolic.
 * The object is allocated with exactly len bytes, so any over-read is a CBMC/ASan error. */
static inline void mk_cur(struct cctx *c) {
    size_t len = nd_size();
    ASSUME(len <= N + 1);
    c->c.len = len;
    if (len == 0 && nd_bool()) {
        c->c.ptr = NULL;
    } else {
        c->c.ptr = verif_malloc(len);
    }
    c->base = c->c.ptr;
    ND_FILL(c->c.ptr, len, N + 1);
    for (size_t i = 0; i < N + 1; ++i)
        if (i < len) c->shadow[i] = c->c.ptr[i];
    c->snap = c->c;
}
static inline void chk_cur_unchanged(const struct cctx *c) {
    ASSERT(c->c.ptr == c->snap.ptr, "failed op: cursor ptr unchanged");
    ASSERT(c->c.len == c->snap.len, "failed op: cursor len unchanged");
}
/* the cursor is a sub-range of the original view */
static inline void chk_cur_inside(const struct aws_byte_cursor *cur, const struct cctx *orig) {
    if (cur->len == 0) return;
    ASSERT(cur->ptr != NULL, "cursor: non-empty view has a pointer");
    ASSERT(cur->ptr >= orig->snap.ptr, "cursor: view starts inside the original view");
    ASSERT((size_t)(cur->ptr - orig->snap.ptr) <= orig->snap.len, "cursor: view start <= end of original");
    ASSERT(cur->len <= orig->snap.len - (size_t)(cur->ptr - orig->snap.ptr), "cursor: view ends inside the original view");
}
#endif
