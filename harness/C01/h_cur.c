/* C01 — byte cursor operations and comparison / parsing helpers */
#include "common.h"

/* ---- advance / nospec ------------------------------------------------------- */
void h_cursor_advance(void) {
    struct cctx s;
    mk_cur(&s);
    size_t len = nd_size(); /* unconstrained */
    bool nospec = nd_bool();
    struct aws_byte_cursor r = nospec ? aws_byte_cursor_advance_nospec(&s.c, len) : aws_byte_cursor_advance(&s.c, len);
    if (len <= s.snap.len && len <= HALF) {
        ASSERT(r.ptr == s.snap.ptr && r.len == len, "advance: returns the first len bytes");
        ASSERT(s.c.len == s.snap.len - len, "advance: cursor shortened by len");
        ASSERT(s.c.ptr == (s.snap.ptr ? s.snap.ptr + len : NULL), "advance: cursor moved by len");
        if (len > 0 && len == s.snap.len) WITNESS("advance whole cursor");
    } else {
        ASSERT(r.ptr == NULL && r.len == 0, "advance: too long => empty result");
        chk_cur_unchanged(&s);
        if (len > HALF) WITNESS("advance huge len");
        if (len == s.snap.len + 1) WITNESS("advance one too many");
    }
}

/* a cursor whose length field is >= SIZE_MAX/2 (only arithmetic is done on it) */
void h_cursor_advance_hugecursor(void) {
    uint8_t obj[4];
    struct aws_byte_cursor c = {.len = nd_size(), .ptr = obj};
    ASSUME(c.len > HALF);
    struct aws_byte_cursor snap = c;
    size_t len = nd_size();
    bool nospec = nd_bool();
    struct aws_byte_cursor r = nospec ? aws_byte_cursor_advance_nospec(&c, len) : aws_byte_cursor_advance(&c, len);
    ASSERT(r.ptr == NULL && r.len == 0, "advance: cursor length > SIZE_MAX/2 is refused");
    ASSERT(c.ptr == snap.ptr && c.len == snap.len, "advance: refused call leaves the cursor unchanged");
    WITNESS("advance huge cursor");
}

void h_nospec_mask(void) {
    size_t index = nd_size(), bound = nd_size();
    size_t m = aws_nospec_mask(index, bound);
    bool in = index < bound && bound <= HALF && index <= HALF;
    ASSERT(m == (in ? SIZE_MAX : 0), "nospec_mask: all-ones iff index < bound <= SIZE_MAX/2");
    WITNESS("nospec_mask");
}

/* ---- read family ------------------------------------------------------------ */
void h_cursor_read(void) {
    struct cctx s;
    mk_cur(&s);
    size_t len = nd_size(); /* unconstrained */
    size_t alloc = len <= N + 1 ? len : N + 1;
    uint8_t *dst = verif_malloc(alloc);
    bool rv = aws_byte_cursor_read(&s.c, dst, len);
    ASSERT(rv == (len <= s.snap.len), "read: succeeds iff enough bytes");
    if (rv) {
        ASSERT(s.c.len == s.snap.len - len, "read: cursor shortened");
        if (len > 0) ASSERT(s.c.ptr == s.snap.ptr + len, "read: cursor moved");
        size_t k = nd_size();
        if (k < len) ASSERT(dst[k] == s.shadow[k], "read: bytes copied");
        if (len > 0 && len == s.snap.len) WITNESS("read whole");
    } else {
        chk_cur_unchanged(&s);
        if (len == s.snap.len + 1) WITNESS("read one short");
        if (len > HALF) WITNESS("read huge");
    }
}

void h_cursor_read_and_fill_buffer(void) {
    struct cctx s;
    struct bctx d;
    mk_cur(&s);
    mk_buf(&d, 2);
    bool rv = aws_byte_cursor_read_and_fill_buffer(&s.c, &d.b);
    chk_buf_valid(&d.b);
    ASSERT(rv == (d.snap.capacity <= s.snap.len), "read_and_fill: succeeds iff cursor has capacity bytes");
    if (rv) {
        ASSERT(d.b.len == d.b.capacity && d.b.capacity == d.snap.capacity, "read_and_fill: buffer full");
        ASSERT(s.c.len == s.snap.len - d.snap.capacity, "read_and_fill: cursor advanced");
        size_t k = nd_size();
        if (k < d.b.capacity) ASSERT(d.b.buffer[k] == s.shadow[k], "read_and_fill: bytes");
        if (d.b.capacity > 0) WITNESS("read_and_fill ok");
    } else {
        chk_cur_unchanged(&s);
        chk_buf_unchanged(&d);
        WITNESS("read_and_fill fails");
    }
}

#define READ_BE(NAME, T, CALL, NB)                                                                                     \
    void NAME(void) {                                                                                                  \
        struct cctx s;                                                                                                 \
        mk_cur(&s);                                                                                                    \
        T v = (T)nd_u64();                                                                                             \
        T v0 = v;                                                                                                      \
        bool rv = CALL(&s.c, &v);                                                                                      \
        ASSERT(rv == (s.snap.len >= NB), "read_be: succeeds iff enough bytes");                                        \
        if (rv) {                                                                                                      \
            uint64_t e = 0;                                                                                            \
            for (size_t i = 0; i < NB; ++i) e = (e << 8) | s.shadow[i];                                                \
            ASSERT((uint64_t)v == e, "read_be: big-endian value");                                                     \
            ASSERT(s.c.len == s.snap.len - NB && s.c.ptr == s.snap.ptr + NB, "read_be: cursor advanced");              \
            WITNESS("read_be ok");                                                                                     \
        } else {                                                                                                       \
            chk_cur_unchanged(&s);                                                                                     \
            (void)v0;                                                                                                  \
            if (s.snap.len == NB - 1) WITNESS("read_be one short");                                                    \
        }                                                                                                              \
    }
READ_BE(h_read_u8, uint8_t, aws_byte_cursor_read_u8, 1)
READ_BE(h_read_be16, uint16_t, aws_byte_cursor_read_be16, 2)
READ_BE(h_read_be24, uint32_t, aws_byte_cursor_read_be24, 3)
READ_BE(h_read_be32, uint32_t, aws_byte_cursor_read_be32, 4)
READ_BE(h_read_be64, uint64_t, aws_byte_cursor_read_be64, 8)

void h_read_float(void) {
    struct cctx s;
    mk_cur(&s);
    bool which = nd_bool();
    union { uint32_t u; float f; } a;
    union { uint64_t u; double f; } b;
    a.u = 0; b.u = 0;
    bool rv = which ? aws_byte_cursor_read_float_be32(&s.c, &a.f) : aws_byte_cursor_read_float_be64(&s.c, &b.f);
    size_t nb = which ? 4 : 8;
    ASSERT(rv == (s.snap.len >= nb), "read_float: succeeds iff enough bytes");
    if (rv) {
        uint64_t e = 0;
        for (size_t i = 0; i < 8; ++i) if (i < nb) e = (e << 8) | s.shadow[i];
        /* compare bit patterns; signalling-NaN quieting by value passing does not happen with SSE moves */
        if (which) ASSERT(a.u == (uint32_t)e, "read_float32: IEEE bits"); else ASSERT(b.u == e, "read_float64: IEEE bits");
        ASSERT(s.c.len == s.snap.len - nb, "read_float: cursor advanced");
        WITNESS("read_float ok");
    } else {
        chk_cur_unchanged(&s);
    }
}

static int hexval(uint8_t c) {
    if (c >= '0' && c <= '9') return c - '0';
    if (c >= 'a' && c <= 'f') return c - 'a' + 10;
    if (c >= 'A' && c <= 'F') return c - 'A' + 10;
    return -1;
}
void h_read_hex_u8(void) {
    struct cctx s;
    mk_cur(&s);
    uint8_t v = nd_u8(), v0 = v;
    bool rv = aws_byte_cursor_read_hex_u8(&s.c, &v);
    bool ok = s.snap.len >= 2 && hexval(s.shadow[0]) >= 0 && hexval(s.shadow[1]) >= 0;
    ASSERT(rv == ok, "read_hex_u8: succeeds iff two hex digits");
    if (rv) {
        ASSERT(v == (uint8_t)(hexval(s.shadow[0]) * 16 + hexval(s.shadow[1])), "read_hex_u8: value");
        ASSERT(s.c.len == s.snap.len - 2 && s.c.ptr == s.snap.ptr + 2, "read_hex_u8: cursor advanced");
        WITNESS("read_hex_u8 ok");
    } else {
        chk_cur_unchanged(&s);
        ASSERT(v == v0, "read_hex_u8: output untouched on failure");
        if (s.snap.len >= 2) WITNESS("read_hex_u8 bad digit");
    }
}

/* ---- split ------------------------------------------------------------------- */
/* one inductive step of the next_split iteration from an ARBITRARY legal iterator state:
 * substr is either zeroed (first call) or a previous token: inside the input, followed by a
 * delimiter or the end of input. Progress (new start > old start) gives termination. */
void h_next_split_step(void) {
    struct cctx s;
    mk_cur(&s);
    char ch = (char)nd_u8();
    struct aws_byte_cursor sub = {0, NULL};
    bool first = nd_bool();
    size_t off = 0, tl = 0;
    if (!first) {
        ASSUME(s.snap.ptr != NULL);
        off = nd_size();
        tl = nd_size();
        ASSUME(off <= s.snap.len && tl <= s.snap.len - off);
        ASSUME(off + tl == s.snap.len || s.shadow[off + tl] == (uint8_t)ch);
        sub.ptr = s.snap.ptr + off;
        sub.len = tl;
    }
    bool more = aws_byte_cursor_next_split(&s.c, ch, &sub);
    chk_cur_unchanged(&s);
    if (s.snap.ptr == NULL) {
        ASSERT(more == first, "next_split: NULL input yields exactly one (empty) token");
        ASSERT(sub.len == 0, "next_split: NULL input token is empty");
        return;
    }
    size_t start = first ? 0 : off + tl + 1;
    if (start > s.snap.len) {
        ASSERT(!more && sub.ptr == NULL && sub.len == 0, "next_split: past the end => false and zeroed token");
        WITNESS("next_split done");
        return;
    }
    ASSERT(more, "next_split: another token exists");
    ASSERT(sub.ptr == s.snap.ptr + start, "next_split: token starts right after the previous delimiter");
    ASSERT(sub.len <= s.snap.len - start, "next_split: token inside the input");
    size_t k = nd_size();
    if (k < sub.len) ASSERT(s.shadow[start + k] != (uint8_t)ch, "next_split: token has no delimiter");
    if (start + sub.len < s.snap.len) ASSERT(s.shadow[start + sub.len] == (uint8_t)ch, "next_split: token ends at a delimiter or the end");
    if (!first && start == s.snap.len) WITNESS("next_split empty last token after trailing delimiter");
    if (!first && sub.len > 0) WITNESS("next_split later token");
}

void h_next_split(void) {
    struct cctx s;
    mk_cur(&s);
    char ch = (char)nd_u8();
    struct aws_byte_cursor sub = {0, NULL};
    size_t nsplit = 0, nch = 0, consumed = 0;
    for (size_t i = 0; i < N + 1; ++i) if (i < s.snap.len && s.shadow[i] == (uint8_t)ch) nch++;
    bool more = true;
    for (size_t it = 0; it < N + 3; ++it) {
        if (!more) break;
        more = aws_byte_cursor_next_split(&s.c, ch, &sub);
        chk_cur_unchanged(&s);
        if (more) {
            nsplit++;
            if (s.snap.ptr != NULL) {
                ASSERT(sub.ptr == s.snap.ptr + consumed, "next_split: token starts right after the previous delimiter");
                ASSERT(sub.len <= s.snap.len - consumed, "next_split: token inside the input");
                for (size_t k = 0; k < N + 1; ++k)
                    if (k < sub.len) ASSERT(s.shadow[consumed + k] != (uint8_t)ch, "next_split: token has no delimiter");
                if (consumed + sub.len < s.snap.len)
                    ASSERT(s.shadow[consumed + sub.len] == (uint8_t)ch, "next_split: token ends at a delimiter or the end");
                consumed += sub.len + 1;
            } else {
                ASSERT(sub.len == 0, "next_split: NULL input yields one empty token");
            }
        } else {
            ASSERT(sub.ptr == NULL && sub.len == 0, "next_split: finished => zeroed token");
        }
    }
    ASSERT(!more, "next_split: terminates after #delimiters+1 tokens");
    ASSERT(nsplit == nch + 1, "next_split: #tokens == #delimiters + 1");
    if (nch >= 2 && s.snap.len >= 1 && s.shadow[s.snap.len - 1] == (uint8_t)ch) WITNESS("next_split trailing delimiter");
}

void h_split_on_char_n(void) {
    struct cctx s;
    mk_cur(&s);
    char ch = (char)nd_u8();
    size_t n = nd_size();
    ASSUME(n <= N + 2);
    size_t cap = nd_size();
    ASSUME(cap >= 1 && cap <= N + 2);
    struct aws_byte_cursor *store = verif_malloc(cap * sizeof(struct aws_byte_cursor));
    struct aws_array_list out;
    aws_array_list_init_static(&out, store, cap, sizeof(struct aws_byte_cursor));
    size_t nch = 0;
    for (size_t i = 0; i < N + 1; ++i) if (i < s.snap.len && s.shadow[i] == (uint8_t)ch) nch++;
    size_t expect = nch + 1;
    if (n > 0 && expect > n + 1) expect = n + 1;
    int rc = aws_byte_cursor_split_on_char_n(&s.c, ch, n, &out);
    chk_cur_unchanged(&s);
    size_t got = aws_array_list_length(&out);
    ASSERT(got <= cap, "split: never more tokens than the list holds");
    if (expect <= cap) {
        ASSERT(rc == AWS_OP_SUCCESS, "split: succeeds when the list is large enough");
        ASSERT(got == expect, "split: token count = min(#delims+1, n+1)");
    } else {
        ASSERT(rc == AWS_OP_ERR, "split: reports error when the list fills up");
        ASSERT(got == cap, "split: documented part-way stop (list full)");
        WITNESS("split list full");
    }
    /* every token lies inside the input, in order, and the last one of an n-limited split runs to the end */
    size_t k = nd_size();
    if (k < got) {
        struct aws_byte_cursor t = store[k];
        if (s.snap.ptr) chk_cur_inside(&t, &s);
        if (rc == AWS_OP_SUCCESS && k == got - 1 && s.snap.ptr)
            ASSERT(t.ptr + t.len == s.snap.ptr + s.snap.len, "split: last token ends at the end of input");
        if (k + 1 < got && s.snap.ptr)
            ASSERT(store[k + 1].ptr == t.ptr + t.len + 1, "split: tokens are consecutive");
    }
    if (rc == AWS_OP_SUCCESS && n > 0 && nch > n) WITNESS("split limited by n");
}

static bool match_at(const struct cctx *s, const struct cctx *f, size_t i) {
    bool m = true;
    for (size_t j = 0; j < N + 1; ++j)
        if (j < f->snap.len && s->shadow[i + j] != f->shadow[j]) m = false;
    return m;
}
void h_find_exact(void) {
    struct cctx s, f;
    mk_cur(&s);
    mk_cur(&f);
    struct aws_byte_cursor hit = {0, NULL};
    int rc = aws_byte_cursor_find_exact(&s.c, &f.c, &hit);
    chk_cur_unchanged(&s);
    chk_cur_unchanged(&f);
    if (f.snap.len > s.snap.len) {
        ASSERT(rc == AWS_OP_ERR && aws_last_error() == AWS_ERROR_STRING_MATCH_NOT_FOUND, "find_exact: needle longer than input");
    } else if (f.snap.len == 0) {
        ASSERT(rc == AWS_OP_ERR && aws_last_error() == AWS_ERROR_SHORT_BUFFER, "find_exact: empty needle is an error");
    } else if (rc == AWS_OP_SUCCESS) {
        ASSERT(hit.ptr >= s.snap.ptr && (size_t)(hit.ptr - s.snap.ptr) <= s.snap.len - f.snap.len, "find_exact: hit inside input");
        size_t pos = (size_t)(hit.ptr - s.snap.ptr);
        ASSERT(hit.len == s.snap.len - pos, "find_exact: result runs to the end of input");
        ASSERT(match_at(&s, &f, pos), "find_exact: needle occurs at the reported position");
        size_t i = nd_size(); /* universally quantified earlier position */
        if (i < pos) ASSERT(!match_at(&s, &f, i), "find_exact: no earlier occurrence (first match)");
        if (pos > 0 && f.snap.len > 1) WITNESS("find_exact found later");
    } else {
        ASSERT(rc == AWS_OP_ERR && aws_last_error() == AWS_ERROR_STRING_MATCH_NOT_FOUND, "find_exact: not found");
        ASSERT(hit.ptr == NULL && hit.len == 0, "find_exact: output untouched when not found");
        size_t i = nd_size(); /* universally quantified position */
        if (i <= s.snap.len - f.snap.len) ASSERT(!match_at(&s, &f, i), "find_exact: reports not-found only if there is no occurrence");
        WITNESS("find_exact not found");
    }
}

/* ---- trim -------------------------------------------------------------------- */
static bool s_pred_table[256];
static bool s_pred(uint8_t v) { return s_pred_table[v]; }
void h_trim(void) {
    struct cctx s;
    mk_cur(&s);
    /* arbitrary predicate restricted to the bytes that occur: table entries nondet */
    for (size_t i = 0; i < N + 1; ++i) if (i < s.snap.len) s_pred_table[s.shadow[i]] = nd_bool();
    size_t lead = 0, trail = 0;
    bool stop = false;
    for (size_t i = 0; i < N + 1; ++i) if (i < s.snap.len && !stop) { if (s_pred_table[s.shadow[i]]) lead++; else stop = true; }
    stop = false;
    for (size_t i = 0; i < N + 1; ++i) if (i < s.snap.len && !stop) { if (s_pred_table[s.shadow[s.snap.len - 1 - i]]) trail++; else stop = true; }
    unsigned op = nd_u8();
    ASSUME(op < 4);
    if (op == 0) {
        struct aws_byte_cursor r = aws_byte_cursor_left_trim_pred(&s.c, s_pred);
        ASSERT(r.len == s.snap.len - lead && (r.len == 0 || r.ptr == s.snap.ptr + lead), "left_trim");
        chk_cur_inside(&r, &s);
    } else if (op == 1) {
        struct aws_byte_cursor r = aws_byte_cursor_right_trim_pred(&s.c, s_pred);
        ASSERT(r.len == s.snap.len - trail && r.ptr == s.snap.ptr, "right_trim");
    } else if (op == 2) {
        struct aws_byte_cursor r = aws_byte_cursor_trim_pred(&s.c, s_pred);
        size_t e = lead == s.snap.len ? 0 : s.snap.len - lead - trail;
        ASSERT(r.len == e, "trim: length");
        if (e > 0) ASSERT(r.ptr == s.snap.ptr + lead, "trim: start");
        chk_cur_inside(&r, &s);
        if (lead > 0 && trail > 0 && e > 0) WITNESS("trim both sides");
    } else {
        ASSERT(aws_byte_cursor_satisfies_pred(&s.c, s_pred) == (lead == s.snap.len), "satisfies_pred");
    }
    chk_cur_unchanged(&s);
    WITNESS("trim");
}

/* ---- comparisons --------------------------------------------------------------- */
static uint8_t lower(uint8_t c) { return (c >= 'A' && c <= 'Z') ? (uint8_t)(c + 32) : c; }
static void eq_family(int part) {
    struct cctx a, b;
    mk_cur(&a);
    mk_cur(&b);
    bool eq = a.snap.len == b.snap.len, eqi = eq;
    for (size_t i = 0; i < N + 1; ++i)
        if (i < a.snap.len && i < b.snap.len) {
            if (a.shadow[i] != b.shadow[i]) eq = false;
            if (lower(a.shadow[i]) != lower(b.shadow[i])) eqi = false;
        }
    bool pre = a.snap.len >= b.snap.len, prei = pre;
    for (size_t i = 0; i < N + 1; ++i)
        if (i < b.snap.len && i < a.snap.len) {
            if (a.shadow[i] != b.shadow[i]) pre = false;
            if (lower(a.shadow[i]) != lower(b.shadow[i])) prei = false;
        }
    if (part == 0) {
    ASSERT(aws_byte_cursor_eq(&a.c, &b.c) == eq, "cursor_eq");
    ASSERT(aws_byte_cursor_eq_ignore_case(&a.c, &b.c) == eqi, "cursor_eq_ignore_case");
    ASSERT(aws_array_eq(a.c.ptr, a.c.len, b.c.ptr, b.c.len) == eq, "array_eq");
    ASSERT(aws_array_eq_ignore_case(a.c.ptr, a.c.len, b.c.ptr, b.c.len) == eqi, "array_eq_ignore_case");
    } else if (part == 1) {
    ASSERT(aws_byte_cursor_starts_with(&a.c, &b.c) == pre, "starts_with");
    ASSERT(aws_byte_cursor_starts_with_ignore_case(&a.c, &b.c) == prei, "starts_with_ignore_case");
    } else if (part == 2) {
    struct aws_byte_buf bb = {.len = b.c.len, .buffer = b.c.len ? b.c.ptr : NULL, .capacity = b.c.len, .allocator = NULL};
    struct aws_byte_buf ab = {.len = a.c.len, .buffer = a.c.len ? a.c.ptr : NULL, .capacity = a.c.len, .allocator = NULL};
    ASSERT(aws_byte_cursor_eq_byte_buf(&a.c, &bb) == eq, "cursor_eq_byte_buf");
    ASSERT(aws_byte_cursor_eq_byte_buf_ignore_case(&a.c, &bb) == eqi, "cursor_eq_byte_buf_ignore_case");
    ASSERT(aws_byte_buf_eq(&ab, &bb) == eq, "byte_buf_eq");
    ASSERT(aws_byte_buf_eq_ignore_case(&ab, &bb) == eqi, "byte_buf_eq_ignore_case");
    } else {
    if (eqi) ASSERT(aws_hash_array_ignore_case(a.c.ptr, a.c.len) == aws_hash_array_ignore_case(b.c.ptr, b.c.len),
                    "hash_array_ignore_case: case-insensitively equal arrays hash equally");
    }
    chk_cur_unchanged(&a);
    chk_cur_unchanged(&b);
    if (eqi && !eq && a.snap.len > 1) WITNESS("eq differs only in case");
}
void h_eq_cursor(void) { eq_family(0); }
void h_eq_starts_with(void) { eq_family(1); }
void h_eq_buf(void) { eq_family(2); }


void h_eq_c_str(void) {
    struct cctx a;
    mk_cur(&a);
    size_t n = nd_size();
    ASSUME(n <= N + 1);
    char *s = verif_malloc(n + 1); /* exactly strlen+1 bytes: any read past the NUL is an error */
    ND_FILL(s, n, N + 1);
    for (size_t i = 0; i < N + 1; ++i) if (i < n) ASSUME(s[i] != 0);
    s[n] = 0;
    bool eq = a.snap.len == n, eqi = eq;
    for (size_t i = 0; i < N + 1; ++i)
        if (i < a.snap.len && i < n) {
            if (a.shadow[i] != (uint8_t)s[i]) eq = false;
            if (lower(a.shadow[i]) != lower((uint8_t)s[i])) eqi = false;
        }
    ASSERT(aws_byte_cursor_eq_c_str(&a.c, s) == eq, "cursor_eq_c_str");
    ASSERT(aws_byte_cursor_eq_c_str_ignore_case(&a.c, s) == eqi, "cursor_eq_c_str_ignore_case");
    ASSERT(aws_array_eq_c_str(a.c.ptr, a.c.len, s) == eq, "array_eq_c_str");
    ASSERT(aws_array_eq_c_str_ignore_case(a.c.ptr, a.c.len, s) == eqi, "array_eq_c_str_ignore_case");
    struct aws_byte_buf ab = {.len = a.c.len, .buffer = a.c.len ? a.c.ptr : NULL, .capacity = a.c.len, .allocator = NULL};
    ASSERT(aws_byte_buf_eq_c_str(&ab, s) == eq, "byte_buf_eq_c_str");
    ASSERT(aws_byte_buf_eq_c_str_ignore_case(&ab, s) == eqi, "byte_buf_eq_c_str_ignore_case");
    if (a.snap.len > n) WITNESS("eq_c_str: array longer than string");
    if (eq && n > 1) WITNESS("eq_c_str equal");
}

static int sgn(int x) { return x < 0 ? -1 : (x > 0 ? 1 : 0); }
void h_compare(void) {
    struct cctx a, b;
    mk_cur(&a);
    mk_cur(&b);
    ASSUME(a.c.ptr != NULL && b.c.ptr != NULL); /* documented precondition of compare_lexical */
    int ref = 0;
    for (size_t i = 0; i < N + 1; ++i)
        if (ref == 0 && i < a.snap.len && i < b.snap.len && a.shadow[i] != b.shadow[i]) ref = a.shadow[i] < b.shadow[i] ? -1 : 1;
    if (ref == 0 && a.snap.len != b.snap.len) ref = a.snap.len < b.snap.len ? -1 : 1;
    ASSERT(sgn(aws_byte_cursor_compare_lexical(&a.c, &b.c)) == ref, "compare_lexical: sign equals reference");
    const uint8_t *lt = aws_lookup_table_to_lower_get();
    int refl = 0;
    for (size_t i = 0; i < N + 1; ++i)
        if (refl == 0 && i < a.snap.len && i < b.snap.len && lower(a.shadow[i]) != lower(b.shadow[i]))
            refl = lower(a.shadow[i]) < lower(b.shadow[i]) ? -1 : 1;
    if (refl == 0 && a.snap.len != b.snap.len) refl = a.snap.len < b.snap.len ? -1 : 1;
    ASSERT(aws_byte_cursor_compare_lookup(&a.c, &b.c, lt) == refl, "compare_lookup(to_lower): equals reference");
    chk_cur_unchanged(&a);
    chk_cur_unchanged(&b);
    if (ref != 0 && refl == 0) WITNESS("compare differs only in case");
}

/* ---- number parsing ------------------------------------------------------------ */
#ifndef NDIG
#    define NDIG 21
#endif
static void parse_u64(const bool hex) {
    size_t len = nd_size();
    ASSUME(len <= NDIG);
    struct aws_byte_cursor c = {.len = len, .ptr = (len == 0 && nd_bool()) ? NULL : verif_malloc(len)};
    ND_FILL(c.ptr, len, NDIG);
    uint64_t out = nd_u64();
    unsigned __int128 acc = 0;
    bool bad = len == 0, ovf = false;
    for (size_t i = 0; i < NDIG; ++i)
        if (i < len && !bad && !ovf) {
            int v = hexval(c.ptr[i]);
            if (v < 0 || (!hex && v > 9)) { bad = true; }
            else {
                acc = acc * (hex ? 16 : 10) + (unsigned)v;
                if (acc > (unsigned __int128)UINT64_MAX) ovf = true;
            }
        }
    int rc = hex ? aws_byte_cursor_utf8_parse_u64_hex(c, &out) : aws_byte_cursor_utf8_parse_u64(c, &out);
    if (bad) {
        ASSERT(rc == AWS_OP_ERR && aws_last_error() == AWS_ERROR_INVALID_ARGUMENT, "parse_u64: bad digit / empty => INVALID_ARGUMENT");
    } else if (ovf) {
        ASSERT(rc == AWS_OP_ERR && aws_last_error() == AWS_ERROR_OVERFLOW_DETECTED, "parse_u64: overflow detected");
        WITNESS("parse_u64 overflow");
    } else {
        ASSERT(rc == AWS_OP_SUCCESS, "parse_u64: valid digits succeed");
        ASSERT(out == (uint64_t)acc, "parse_u64: value equals reference accumulation");
        if (acc == (unsigned __int128)UINT64_MAX) WITNESS("parse_u64 max");
    }
}
void h_parse_u64_dec(void) { parse_u64(false); }
void h_parse_u64_hex(void) { parse_u64(true); }
