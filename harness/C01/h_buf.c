/* C01 — byte buffer operations: one entry function per API function.
 * Each starts from an ARBITRARY VALID buffer (mk_buf) and checks:
 *  (i) memory safety (CBMC pointer/bounds/memcpy-region checks, on every path),
 *  (ii) validity afterwards, (iii) old bytes preserved, (iv) unchanged on failure,
 *  (v) the function's own post-condition.                                        */
#include "common.h"
#include <aws/common/string.h>

#ifdef VERIF_ALLOC_TRACK
/* secure variants: every byte of a block handed back to the allocator must be 0
 * if the operation was a "secure" one (flag set by the harness) */
bool c01_expect_zero_on_release;
size_t c01_release_count;
void verif_release_hook(void *p, size_t n) {
    c01_release_count++;
    if (c01_expect_zero_on_release && n > 0) {
        size_t k = nd_size();
        ASSUME(k < n);
        ASSERT(((uint8_t *)p)[k] == 0, "secure: released memory was zeroed first");
    }
}
#endif

void h_init(void) {
    struct aws_byte_buf b;
    size_t cap = nd_size();
    ASSUME(cap <= N);
    int rc = aws_byte_buf_init(&b, verif_allocator(), cap);
    ASSERT(rc == AWS_OP_SUCCESS, "init succeeds");
    chk_buf_valid(&b);
    ASSERT(b.len == 0 && b.capacity == cap && b.allocator == verif_allocator(), "init: fields");
    WITNESS("init");
}

void h_init_copy(void) {
    struct bctx s;
    mk_buf(&s, 2);
    struct aws_byte_buf d;
    int rc = aws_byte_buf_init_copy(&d, verif_allocator(), &s.b);
    ASSERT(rc == AWS_OP_SUCCESS, "init_copy succeeds");
    chk_buf_valid(&d);
    chk_buf_unchanged(&s);
    ASSERT(d.len == s.b.len, "init_copy: same len");
    ASSERT(d.capacity == s.b.capacity, "init_copy: same capacity");
    ASSERT(d.capacity == 0 || d.buffer != s.b.buffer, "init_copy: own storage");
    if (s.snap.len > 0) ASSERT(d.buffer[s.idx] == s.old, "init_copy: same bytes");
    WITNESS("init_copy");
}

void h_init_copy_from_cursor(void) {
    struct cctx s;
    mk_cur(&s);
    struct aws_byte_buf d;
    int rc = aws_byte_buf_init_copy_from_cursor(&d, verif_allocator(), s.c);
    ASSERT(rc == AWS_OP_SUCCESS, "init_copy_from_cursor succeeds");
    chk_buf_valid(&d);
    ASSERT(d.len == s.c.len && d.capacity == s.c.len, "init_copy_from_cursor: len/capacity");
    size_t k = nd_size();
    if (k < s.c.len) ASSERT(d.buffer[k] == s.shadow[k], "init_copy_from_cursor: bytes");
    WITNESS("init_copy_from_cursor");
}

void h_init_cache_and_update_cursors(void) {
    struct cctx a, b;
    mk_cur(&a);
    mk_cur(&b);
    struct aws_byte_buf d;
    int rc = aws_byte_buf_init_cache_and_update_cursors(&d, verif_allocator(), &a.c, &b.c, NULL);
    ASSERT(rc == AWS_OP_SUCCESS, "init_cache succeeds (no overflow possible here)");
    chk_buf_valid(&d);
    ASSERT(d.len == a.snap.len + b.snap.len, "init_cache: total length");
    ASSERT(a.c.len == a.snap.len && b.c.len == b.snap.len, "init_cache: cursor lengths kept");
    size_t k = nd_size();
    if (k < a.c.len) {
        ASSERT(a.c.ptr == d.buffer, "init_cache: first cursor points at start of cache");
        ASSERT(a.c.ptr[k] == a.shadow[k], "init_cache: first cursor content");
    }
    if (k < b.c.len) {
        ASSERT(b.c.ptr == d.buffer + a.c.len, "init_cache: second cursor follows first");
        ASSERT(b.c.ptr[k] == b.shadow[k], "init_cache: second cursor content");
    }
    WITNESS("init_cache");
}

/* source cursor for appends: separate object, or a view INTO the destination's
 * already-written bytes (the aliasing the API allows) */
static void mk_src(struct cctx *s, struct bctx *d, bool alias) {
    if (alias) {
        ASSUME(d->b.len > 0);
        size_t off = nd_size(), len = nd_size();
        ASSUME(off <= d->b.len && len <= d->b.len - off);
        s->c.ptr = d->b.buffer + off;
        s->c.len = len;
        s->base = s->c.ptr;
        for (size_t i = 0; i < N + 1; ++i)
            if (i < len) s->shadow[i] = s->c.ptr[i];
        s->snap = s->c;
    } else {
        mk_cur(s);
    }
}

static void append_body(bool alias) {
    struct bctx d;
    struct cctx s;
    mk_buf(&d, 2);
    mk_src(&s, &d, alias);
    int rc = aws_byte_buf_append(&d.b, &s.c);
    chk_buf_valid(&d.b);
    chk_cur_unchanged(&s);
    if (d.snap.capacity - d.snap.len < s.snap.len) {
        ASSERT(rc == AWS_OP_ERR && aws_last_error() == AWS_ERROR_DEST_COPY_TOO_SMALL, "append: too small reported");
        chk_buf_unchanged(&d);
        WITNESS("append fails");
    } else {
        ASSERT(rc == AWS_OP_SUCCESS, "append: succeeds when it fits (incl. exact fit)");
        ASSERT(d.b.len == d.snap.len + s.snap.len, "append: new length");
        ASSERT(d.b.capacity == d.snap.capacity && d.b.buffer == d.snap.buffer, "append: no reallocation");
        chk_prefix(&d);
        size_t k = nd_size();
        if (k < s.snap.len) ASSERT(d.b.buffer[d.snap.len + k] == s.shadow[k], "append: appended bytes equal source");
        if (s.snap.len > 0 && d.snap.capacity - d.snap.len == s.snap.len) WITNESS("append exact fit");
    }
}
void h_append(void) { append_body(false); }
void h_append_alias(void) { append_body(true); } /* the source views the destination's own bytes */

void h_append_with_lookup(void) {
    struct bctx d;
    struct cctx s;
    mk_buf(&d, 2);
    mk_cur(&s);
    uint8_t table[256];
    for (int i = 0; i < 256; ++i) table[i] = (uint8_t)(i ^ 0x20); /* fixed permutation; content not the subject */
    uint8_t t0 = nd_u8();
    size_t ti = nd_u8();
    table[ti] = t0;
    int rc = aws_byte_buf_append_with_lookup(&d.b, &s.c, table);
    chk_buf_valid(&d.b);
    chk_cur_unchanged(&s);
    if (d.snap.capacity - d.snap.len < s.snap.len) {
        ASSERT(rc == AWS_OP_ERR && aws_last_error() == AWS_ERROR_DEST_COPY_TOO_SMALL, "append_with_lookup: too small");
        chk_buf_unchanged(&d);
        WITNESS("append_with_lookup fails");
    } else {
        ASSERT(rc == AWS_OP_SUCCESS, "append_with_lookup: succeeds when it fits");
        ASSERT(d.b.len == d.snap.len + s.snap.len, "append_with_lookup: new length");
        chk_prefix(&d);
        size_t k = nd_size();
        if (k < s.snap.len)
            ASSERT(d.b.buffer[d.snap.len + k] == table[s.shadow[k]], "append_with_lookup: translated bytes");
        WITNESS("append_with_lookup ok");
    }
}

static void dyn_post(struct bctx *d, struct cctx *s, int rc, size_t addlen) {
    if (d->snap.allocator == NULL) {
        ASSERT(rc == AWS_OP_ERR, "append_dynamic: refuses a buffer without allocator");
        chk_buf_unchanged(d);
        return;
    }
    ASSERT(rc == AWS_OP_SUCCESS, "append_dynamic: succeeds");
    chk_buf_valid(&d->b);
    ASSERT(d->b.len == d->snap.len + addlen, "append_dynamic: new length");
    chk_prefix(d);
    if (d->snap.capacity - d->snap.len >= addlen) {
        ASSERT(d->b.buffer == d->snap.buffer && d->b.capacity == d->snap.capacity, "append_dynamic: no growth when it fits");
    } else {
        size_t req = d->snap.len + addlen, dbl = d->snap.capacity * 2;
        ASSERT(d->b.capacity == (req > dbl ? req : dbl), "append_dynamic: capacity = max(2*old, required)");
        WITNESS("append_dynamic grew");
    }
    (void)s;
}

static void append_dynamic_body(bool alias) {
    struct bctx d;
    struct cctx s;
    mk_buf(&d, 2);
    mk_src(&s, &d, alias);
    bool secure = nd_bool();
#ifdef VERIF_ALLOC_TRACK
    if (d.b.buffer) { verif_blocks[0].p = d.b.buffer; verif_blocks[0].n = d.b.capacity; verif_nblocks = 1; }
    c01_expect_zero_on_release = secure;
#endif
    int rc = secure ? aws_byte_buf_append_dynamic_secure(&d.b, &s.c) : aws_byte_buf_append_dynamic(&d.b, &s.c);
    dyn_post(&d, &s, rc, s.snap.len);
    if (rc == AWS_OP_SUCCESS) {
        size_t k = nd_size();
        if (k < s.snap.len) ASSERT(d.b.buffer[d.snap.len + k] == s.shadow[k], "append_dynamic: appended bytes equal source");
#ifdef VERIF_ALLOC_TRACK
        if (d.b.buffer != d.snap.buffer && d.snap.buffer != NULL)
            ASSERT(c01_release_count == 1, "append_dynamic: old block released exactly once");
#endif
        WITNESS("append_dynamic ok");
    }
}
void h_append_dynamic(void) { append_dynamic_body(false); }
void h_append_dynamic_alias(void) { append_dynamic_body(true); } /* self-append / cursor into destination */

void h_append_byte_dynamic(void) {
    struct bctx d;
    mk_buf(&d, 2);
    uint8_t v = nd_u8();
    bool secure = nd_bool();
#ifdef VERIF_ALLOC_TRACK
    if (d.b.buffer) { verif_blocks[0].p = d.b.buffer; verif_blocks[0].n = d.b.capacity; verif_nblocks = 1; }
    c01_expect_zero_on_release = secure;
#endif
    int rc = secure ? aws_byte_buf_append_byte_dynamic_secure(&d.b, v) : aws_byte_buf_append_byte_dynamic(&d.b, v);
    dyn_post(&d, NULL, rc, 1);
    if (rc == AWS_OP_SUCCESS) {
        ASSERT(d.b.buffer[d.snap.len] == v, "append_byte_dynamic: byte stored");
        WITNESS("append_byte_dynamic ok");
    }
}

void h_append_null_terminator(void) {
    struct bctx d;
    mk_buf(&d, 1);
    int rc = aws_byte_buf_append_null_terminator(&d.b);
    dyn_post(&d, NULL, rc, 1);
    ASSERT(d.b.buffer[d.snap.len] == 0, "append_null_terminator: NUL stored");
    WITNESS("append_null_terminator");
}

void h_append_and_update(void) {
    struct bctx d;
    struct cctx s;
    mk_buf(&d, 2);
    mk_cur(&s);
    int rc = aws_byte_buf_append_and_update(&d.b, &s.c);
    chk_buf_valid(&d.b);
    if (d.snap.capacity - d.snap.len < s.snap.len) {
        ASSERT(rc == AWS_OP_ERR, "append_and_update: too small");
        chk_buf_unchanged(&d);
        chk_cur_unchanged(&s);
        WITNESS("append_and_update fails");
    } else {
        ASSERT(rc == AWS_OP_SUCCESS, "append_and_update: ok");
        chk_prefix(&d);
        ASSERT(s.c.len == s.snap.len, "append_and_update: cursor len kept");
        if (d.b.buffer) ASSERT(s.c.ptr == d.b.buffer + d.snap.len, "append_and_update: cursor now views the copy");
        size_t k = nd_size();
        if (k < s.snap.len) ASSERT(s.c.ptr[k] == s.shadow[k], "append_and_update: copy equals source");
        WITNESS("append_and_update ok");
    }
}

void h_cat(void) {
    struct bctx d, a, b, c;
    mk_buf(&d, 2);
    mk_buf(&a, 2);
    mk_buf(&b, 2);
    mk_buf(&c, 2);
    size_t n = nd_size();
    ASSUME(n <= 3);
    int rc = n == 0 ? aws_byte_buf_cat(&d.b, 0)
                    : n == 1 ? aws_byte_buf_cat(&d.b, 1, &a.b)
                             : n == 2 ? aws_byte_buf_cat(&d.b, 2, &a.b, &b.b) : aws_byte_buf_cat(&d.b, 3, &a.b, &b.b, &c.b);
    chk_buf_valid(&d.b);
    chk_prefix(&d); /* holds on success and on the documented part-way failure */
    chk_buf_unchanged(&a);
    chk_buf_unchanged(&b);
    chk_buf_unchanged(&c);
    size_t total = (n >= 1 ? a.b.len : 0) + (n >= 2 ? b.b.len : 0) + (n >= 3 ? c.b.len : 0);
    if (d.snap.capacity - d.snap.len >= total) {
        ASSERT(rc == AWS_OP_SUCCESS, "cat: succeeds when everything fits");
        ASSERT(d.b.len == d.snap.len + total, "cat: new length");
        size_t k = nd_size();
        if (n >= 2 && k < b.b.len) ASSERT(d.b.buffer[d.snap.len + a.b.len + k] == b.shadow[k], "cat: second part placed after first");
        if (n == 3) WITNESS("cat 3 ok");
    } else {
        ASSERT(rc == AWS_OP_ERR, "cat: fails when the total does not fit");
        ASSERT(d.b.buffer == d.snap.buffer && d.b.capacity == d.snap.capacity, "cat failure: storage unchanged");
        WITNESS("cat fails");
    }
}

/* reserve family. requested sizes are bounded to 2N+2 unless the call must fail by
 * overflow first (a real allocation of ~SIZE_MAX bytes is OOM => abort, outside API) */
void h_reserve(void) {
    struct bctx d;
    mk_buf(&d, 2);
    size_t req = nd_size();
    ASSUME(req <= 2 * N + 2);
    int rc = aws_byte_buf_reserve(&d.b, req);
    if (d.snap.allocator == NULL) {
        ASSERT(rc == AWS_OP_ERR, "reserve: refuses buffer without allocator");
        chk_buf_unchanged(&d);
        return;
    }
    ASSERT(rc == AWS_OP_SUCCESS, "reserve succeeds");
    chk_buf_valid(&d.b);
    ASSERT(d.b.len == d.snap.len, "reserve: len unchanged");
    ASSERT(d.b.capacity == (req > d.snap.capacity ? req : d.snap.capacity), "reserve: capacity = max(old, requested)");
    chk_prefix(&d);
    if (req > d.snap.capacity && d.snap.len > 0) WITNESS("reserve grew a non-empty buffer");
}

void h_reserve_relative(void) {
    struct bctx d;
    mk_buf(&d, 2);
    size_t add = nd_size(); /* unconstrained: SIZE_MAX-k reaches the overflow guard */
    size_t sum;
    bool ovf = __builtin_add_overflow(d.b.len, add, &sum);
    ASSUME(ovf || sum <= 2 * N + 2);
    int rc = aws_byte_buf_reserve_relative(&d.b, add);
    if (d.snap.allocator == NULL || ovf) {
        ASSERT(rc == AWS_OP_ERR, "reserve_relative: error for no allocator / size overflow");
        chk_buf_unchanged(&d);
        if (ovf && d.snap.allocator) WITNESS("reserve_relative overflow");
        return;
    }
    ASSERT(rc == AWS_OP_SUCCESS, "reserve_relative succeeds");
    chk_buf_valid(&d.b);
    ASSERT(d.b.len == d.snap.len, "reserve_relative: len unchanged");
    ASSERT(d.b.capacity == (sum > d.snap.capacity ? sum : d.snap.capacity), "reserve_relative: capacity");
    chk_prefix(&d);
    WITNESS("reserve_relative ok");
}

void h_reserve_smart(void) {
    struct bctx d;
    mk_buf(&d, 2);
    size_t req = nd_size();
    ASSUME(req <= 2 * N + 2);
    int rc = aws_byte_buf_reserve_smart(&d.b, req);
    if (req <= d.snap.capacity) {
        ASSERT(rc == AWS_OP_SUCCESS, "reserve_smart: nothing to do");
        chk_buf_unchanged(&d);
        return;
    }
    if (d.snap.allocator == NULL) {
        ASSERT(rc == AWS_OP_ERR, "reserve_smart: refuses buffer without allocator");
        chk_buf_unchanged(&d);
        return;
    }
    ASSERT(rc == AWS_OP_SUCCESS, "reserve_smart succeeds");
    chk_buf_valid(&d.b);
    size_t dbl = 2 * d.snap.capacity;
    ASSERT(d.b.capacity == (req > dbl ? req : dbl), "reserve_smart: capacity = max(requested, 2*old)");
    ASSERT(d.b.len == d.snap.len, "reserve_smart: len unchanged");
    chk_prefix(&d);
    WITNESS("reserve_smart grew");
}

void h_reserve_smart_relative(void) {
    struct bctx d;
    mk_buf(&d, 2);
    size_t add = nd_size();
    size_t sum;
    bool ovf = __builtin_add_overflow(d.b.len, add, &sum);
    ASSUME(ovf || sum <= 2 * N + 2);
    int rc = aws_byte_buf_reserve_smart_relative(&d.b, add);
    if (ovf) {
        ASSERT(rc == AWS_OP_ERR, "reserve_smart_relative: overflow reported");
        chk_buf_unchanged(&d);
        WITNESS("reserve_smart_relative overflow");
        return;
    }
    if (sum <= d.snap.capacity) {
        ASSERT(rc == AWS_OP_SUCCESS, "reserve_smart_relative: nothing to do");
        chk_buf_unchanged(&d);
        return;
    }
    if (d.snap.allocator == NULL) {
        ASSERT(rc == AWS_OP_ERR, "reserve_smart_relative: refuses buffer without allocator");
        chk_buf_unchanged(&d);
        return;
    }
    ASSERT(rc == AWS_OP_SUCCESS, "reserve_smart_relative succeeds");
    chk_buf_valid(&d.b);
    size_t dbl = 2 * d.snap.capacity;
    ASSERT(d.b.capacity == (sum > dbl ? sum : dbl), "reserve_smart_relative: capacity");
    chk_prefix(&d);
    WITNESS("reserve_smart_relative grew");
}

/* ---- write family ---------------------------------------------------------- */
static void write_post(struct bctx *d, bool rv, size_t len, bool must_fit_rule) {
    chk_buf_valid(&d->b);
    bool fits = len <= HALF && d->snap.len <= HALF && len <= d->snap.capacity - d->snap.len;
    if (must_fit_rule) ASSERT(rv == (len == 0 || fits), "write: succeeds iff the bytes fit");
    if (rv) {
        ASSERT(d->b.len == d->snap.len + len, "write: new length");
        ASSERT(d->b.buffer == d->snap.buffer && d->b.capacity == d->snap.capacity, "write: storage unchanged");
        chk_prefix(d);
    } else {
        chk_buf_unchanged(d);
    }
}

void h_write(void) {
    struct bctx d;
    mk_buf(&d, 2);
    size_t len = nd_size(); /* unconstrained 64-bit */
    size_t alloc = len <= N + 1 ? len : N + 1;
    uint8_t *src = verif_malloc(alloc);
    ND_FILL(src, alloc, N + 1);
    uint8_t sh[N + 1];
    for (size_t i = 0; i < N + 1; ++i) if (i < alloc) sh[i] = src[i];
    bool rv = aws_byte_buf_write(&d.b, src, len);
    write_post(&d, rv, len, true);
    if (rv) {
        size_t k = nd_size();
        if (k < len) ASSERT(d.b.buffer[d.snap.len + k] == sh[k], "write: bytes equal source");
        if (len > 0 && d.snap.capacity - d.snap.len == len) WITNESS("write exact fit");
    } else {
        if (len > HALF) WITNESS("write refused huge len");
        if (len == d.snap.capacity - d.snap.len + 1) WITNESS("write one short");
    }
}

void h_write_from_whole_buffer(void) {
    struct bctx d, s;
    mk_buf(&d, 2);
    mk_buf(&s, 2);
    bool rv = aws_byte_buf_write_from_whole_buffer(&d.b, s.b);
    write_post(&d, rv, s.b.len, true);
    chk_buf_unchanged(&s);
    size_t k = nd_size();
    if (rv && k < s.b.len) ASSERT(d.b.buffer[d.snap.len + k] == s.shadow[k], "write_from_whole_buffer: bytes");
    WITNESS("write_from_whole_buffer");
}

void h_write_from_whole_cursor(void) {
    struct bctx d;
    struct cctx s;
    mk_buf(&d, 2);
    mk_cur(&s);
    bool rv = aws_byte_buf_write_from_whole_cursor(&d.b, s.c);
    write_post(&d, rv, s.c.len, true);
    size_t k = nd_size();
    if (rv && k < s.c.len) ASSERT(d.b.buffer[d.snap.len + k] == s.shadow[k], "write_from_whole_cursor: bytes");
    WITNESS("write_from_whole_cursor");
}

void h_write_to_capacity(void) {
    struct bctx d;
    struct cctx s;
    mk_buf(&d, 2);
    mk_cur(&s);
    struct aws_byte_cursor w = aws_byte_buf_write_to_capacity(&d.b, &s.c);
    chk_buf_valid(&d.b);
    size_t avail = d.snap.capacity - d.snap.len;
    size_t exp = avail < s.snap.len ? avail : s.snap.len;
    ASSERT(w.len == exp, "write_to_capacity: wrote min(available, cursor len)");
    ASSERT(d.b.len == d.snap.len + exp, "write_to_capacity: buffer length");
    ASSERT(s.c.len == s.snap.len - exp, "write_to_capacity: cursor advanced by what was written");
    chk_prefix(&d);
    size_t k = nd_size();
    if (k < exp) ASSERT(d.b.buffer[d.snap.len + k] == s.shadow[k], "write_to_capacity: bytes");
    if (exp > 0 && exp < s.snap.len) WITNESS("write_to_capacity partial");
}

void h_write_u8(void) {
    struct bctx d;
    mk_buf(&d, 2);
    uint8_t v = nd_u8();
    bool rv = aws_byte_buf_write_u8(&d.b, v);
    write_post(&d, rv, 1, true);
    if (rv) ASSERT(d.b.buffer[d.snap.len] == v, "write_u8: byte");
    WITNESS("write_u8");
}

void h_write_u8_n(void) {
    struct bctx d;
    mk_buf(&d, 2);
    uint8_t v = nd_u8();
    size_t cnt = nd_size(); /* unconstrained */
    bool rv = aws_byte_buf_write_u8_n(&d.b, v, cnt);
    chk_buf_valid(&d.b);
    bool fits = cnt <= HALF && cnt <= d.snap.capacity - d.snap.len;
    ASSERT(rv == fits, "write_u8_n: succeeds iff count fits");
    if (rv) {
        ASSERT(d.b.len == d.snap.len + cnt, "write_u8_n: length");
        chk_prefix(&d);
        size_t k = nd_size();
        if (k < cnt) ASSERT(d.b.buffer[d.snap.len + k] == v, "write_u8_n: fill");
        if (cnt > 1) WITNESS("write_u8_n ok");
    } else {
        chk_buf_unchanged(&d);
        if (cnt > HALF) WITNESS("write_u8_n huge");
    }
}

#define WRITE_BE(NAME, T, CALL, NB, EXPR_BYTE)                                                                         \
    void NAME(void) {                                                                                                  \
        struct bctx d;                                                                                                 \
        mk_buf(&d, 2);                                                                                                 \
        T x = (T)nd_u64();                                                                                             \
        bool rv = CALL(&d.b, x);                                                                                       \
        write_post(&d, rv, NB, true);                                                                                  \
        if (rv) {                                                                                                      \
            for (size_t i = 0; i < NB; ++i)                                                                            \
                ASSERT(d.b.buffer[d.snap.len + i] == (uint8_t)(EXPR_BYTE), "write_be: big-endian bytes");              \
            WITNESS("write_be ok");                                                                                    \
        }                                                                                                              \
    }
WRITE_BE(h_write_be16, uint16_t, aws_byte_buf_write_be16, 2, x >> (8 * (1 - i)))
WRITE_BE(h_write_be32, uint32_t, aws_byte_buf_write_be32, 4, x >> (8 * (3 - i)))
WRITE_BE(h_write_be64, uint64_t, aws_byte_buf_write_be64, 8, x >> (8 * (7 - i)))

void h_write_be24(void) {
    struct bctx d;
    mk_buf(&d, 2);
    uint32_t x = nd_u32();
    bool rv = aws_byte_buf_write_be24(&d.b, x);
    chk_buf_valid(&d.b);
    bool fits = 3 <= d.snap.capacity - d.snap.len;
    ASSERT(rv == (x <= 0xFFFFFF && fits), "write_be24: succeeds iff value fits 3 bytes and space");
    if (rv) {
        ASSERT(d.b.len == d.snap.len + 3, "write_be24 len");
        chk_prefix(&d);
        for (size_t i = 0; i < 3; ++i) ASSERT(d.b.buffer[d.snap.len + i] == (uint8_t)(x >> (8 * (2 - i))), "write_be24 bytes");
        WITNESS("write_be24 ok");
    } else {
        chk_buf_unchanged(&d);
    }
}

void h_write_float(void) {
    struct bctx d;
    mk_buf(&d, 2);
    union { uint32_t u; float f; } a;
    union { uint64_t u; double f; } b;
    a.u = nd_u32();
    b.u = nd_u64();
    /* bit patterns that are NaN may be canonicalised when passed by value on some ABIs; x86-64 SSE keeps them */
    bool which = nd_bool();
    bool rv = which ? aws_byte_buf_write_float_be32(&d.b, a.f) : aws_byte_buf_write_float_be64(&d.b, b.f);
    size_t nb = which ? 4 : 8;
    write_post(&d, rv, nb, true);
    if (rv) {
        for (size_t i = 0; i < 8; ++i)
            if (i < nb) {
                uint8_t e = which ? (uint8_t)(a.u >> (8 * (3 - i))) : (uint8_t)(b.u >> (8 * (7 - i)));
                ASSERT(d.b.buffer[d.snap.len + i] == e, "write_float: big-endian IEEE bytes");
            }
        WITNESS("write_float ok");
    }
}

void h_buf_advance(void) {
    struct bctx d;
    mk_buf(&d, 2);
    struct aws_byte_buf out;
    out.buffer = NULL; out.len = 0; out.capacity = 0; out.allocator = NULL;
    size_t len = nd_size(); /* unconstrained */
    bool rv = aws_byte_buf_advance(&d.b, &out, len);
    chk_buf_valid(&d.b);
    ASSERT(rv == (len <= d.snap.capacity - d.snap.len), "buf_advance: succeeds iff space");
    if (rv) {
        ASSERT(d.b.len == d.snap.len + len, "buf_advance: len");
        chk_prefix(&d);
        ASSERT(out.len == 0 && out.capacity == len && out.allocator == NULL, "buf_advance: output fields");
        if (len > 0) ASSERT(out.buffer == d.b.buffer + d.snap.len, "buf_advance: output views the reserved range");
        else ASSERT(out.buffer == NULL, "buf_advance: empty output has NULL buffer");
        if (len > 0) WITNESS("buf_advance ok");
    } else {
        chk_buf_unchanged(&d);
        ASSERT(out.buffer == NULL && out.len == 0 && out.capacity == 0 && out.allocator == NULL, "buf_advance: output zeroed");
        WITNESS("buf_advance fails");
    }
}

/* ---- reset / zero / clean-up ---------------------------------------------- */
void h_reset_zero_cleanup(void) {
    struct bctx d;
    mk_buf(&d, 2);
    size_t k = nd_size();
    ASSUME(k < N);
    unsigned op = nd_u8();
    ASSUME(op < 5);
#ifdef VERIF_ALLOC_TRACK
    if (d.b.buffer) { verif_blocks[0].p = d.b.buffer; verif_blocks[0].n = d.b.capacity; verif_nblocks = 1; }
    c01_expect_zero_on_release = (op == 4);
#endif
    switch (op) {
        case 0:
            aws_byte_buf_reset(&d.b, false);
            ASSERT(d.b.len == 0 && d.b.capacity == d.snap.capacity && d.b.buffer == d.snap.buffer, "reset: len 0, storage kept");
            if (k < d.snap.len) ASSERT(d.b.buffer[k] == d.shadow[k], "reset(false): bytes untouched");
            break;
        case 1:
            aws_byte_buf_reset(&d.b, true);
            ASSERT(d.b.len == 0 && d.b.capacity == d.snap.capacity && d.b.buffer == d.snap.buffer, "reset(zero): len 0, storage kept");
            if (k < d.snap.capacity) ASSERT(d.b.buffer[k] == 0, "reset(zero): whole capacity zeroed");
            break;
        case 2:
            aws_byte_buf_secure_zero(&d.b);
            ASSERT(d.b.len == 0 && d.b.capacity == d.snap.capacity, "secure_zero: len 0");
            if (k < d.snap.capacity) ASSERT(d.b.buffer[k] == 0, "secure_zero: whole capacity zeroed");
            break;
        case 3:
        case 4:
            if (op == 3) aws_byte_buf_clean_up(&d.b); else aws_byte_buf_clean_up_secure(&d.b);
            ASSERT(d.b.buffer == NULL && d.b.len == 0 && d.b.capacity == 0 && d.b.allocator == NULL, "clean_up: struct zeroed");
#ifdef VERIF_ALLOC_TRACK
            ASSERT(c01_release_count == ((d.snap.allocator && d.snap.buffer) ? 1 : 0), "clean_up: releases owned storage exactly once");
#endif
            break;
    }
    chk_buf_valid(&d.b);
    WITNESS("reset/zero/cleanup");
}

/* ---- constructors ---------------------------------------------------------- */
void h_from_constructors(void) {
    size_t n = nd_size();
    ASSUME(n <= N);
    char *s = verif_malloc(n + 1);
    ND_FILL(s, n, N);
    for (size_t i = 0; i < N; ++i) if (i < n) ASSUME(s[i] != 0);
    s[n] = 0;
    struct aws_byte_buf b1 = aws_byte_buf_from_c_str(s);
    chk_buf_valid(&b1);
    ASSERT(b1.len == n && b1.capacity == n && b1.allocator == NULL, "from_c_str: fields");
    ASSERT(n == 0 || b1.buffer == (uint8_t *)s, "from_c_str: views the string");
    struct aws_byte_buf b0 = aws_byte_buf_from_c_str(NULL);
    ASSERT(b0.len == 0 && b0.buffer == NULL, "from_c_str(NULL): empty");
    struct aws_byte_buf b2 = aws_byte_buf_from_array(s, n);
    chk_buf_valid(&b2);
    ASSERT(b2.len == n && b2.capacity == n, "from_array: fields");
    struct aws_byte_buf b3 = aws_byte_buf_from_empty_array(s, n);
    chk_buf_valid(&b3);
    ASSERT(b3.len == 0 && b3.capacity == n, "from_empty_array: fields");
    struct aws_byte_cursor c1 = aws_byte_cursor_from_buf(&b2);
    ASSERT(c1.len == n && c1.ptr == b2.buffer, "cursor_from_buf");
    struct aws_byte_cursor c2 = aws_byte_cursor_from_c_str(s);
    ASSERT(c2.len == n && c2.ptr == (uint8_t *)s, "cursor_from_c_str");
    struct aws_byte_cursor c3 = aws_byte_cursor_from_c_str(NULL);
    ASSERT(c3.len == 0 && c3.ptr == NULL, "cursor_from_c_str(NULL)");
    struct aws_byte_cursor c4 = aws_byte_cursor_from_array(s, n);
    ASSERT(c4.len == n && c4.ptr == (uint8_t *)s, "cursor_from_array");
    WITNESS("constructors");
}

/* ---- a short program: reserve -> append_dynamic -> write -> advance -> clean_up
 * cross-check that the one-step harnesses' pre-states are not over-constrained */
void h_sequence(void) {
    struct aws_byte_buf b;
    size_t cap0 = nd_size();
    ASSUME(cap0 <= 4);
    aws_byte_buf_init(&b, verif_allocator(), cap0);
    uint8_t model[3 * N + 8];
    size_t mlen = 0;
    for (int step = 0; step < 3; ++step) {
        unsigned op = nd_u8();
        ASSUME(op < 4);
        if (op == 0) {
            size_t add = nd_size();
            ASSUME(add <= 4);
            ASSERT(aws_byte_buf_reserve_relative(&b, add) == AWS_OP_SUCCESS, "seq: reserve_relative ok");
            ASSERT(b.capacity - b.len >= add, "seq: reserved space is there");
        } else if (op == 1) {
            struct cctx s;
            size_t len = nd_size();
            ASSUME(len <= 4);
            s.c.len = len;
            s.c.ptr = verif_malloc(len);
            ND_FILL(s.c.ptr, len, 4);
            ASSERT(aws_byte_buf_append_dynamic(&b, &s.c) == AWS_OP_SUCCESS, "seq: append_dynamic ok");
            for (size_t i = 0; i < 4; ++i) if (i < len) model[mlen + i] = s.c.ptr[i];
            mlen += len;
        } else if (op == 2) {
            uint16_t x = nd_u16();
            bool rv = aws_byte_buf_write_be16(&b, x);
            if (rv) { model[mlen] = (uint8_t)(x >> 8); model[mlen + 1] = (uint8_t)x; mlen += 2; }
            else ASSERT(b.capacity - b.len < 2, "seq: write_be16 refused only for lack of space");
        } else {
            struct aws_byte_cursor self = aws_byte_cursor_from_buf(&b);
            ASSERT(aws_byte_buf_append_dynamic(&b, &self) == AWS_OP_SUCCESS, "seq: self-append ok");
            for (size_t i = 0; i < 12; ++i) if (i < mlen && mlen <= 12) model[mlen + i] = model[i];
            ASSUME(mlen <= 12);
            mlen += mlen;
        }
        chk_buf_valid(&b);
        ASSERT(b.len == mlen, "seq: length equals model");
        size_t k = nd_size();
        if (k < mlen) ASSERT(b.buffer[k] == model[k], "seq: content equals model");
    }
    aws_byte_buf_clean_up(&b);
    WITNESS("sequence");
}
