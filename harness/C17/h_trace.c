/* C17 — memory tracer: programs of acquire / calloc / realloc / release through the tracing allocator, operation, slot and sizes chosen
 * by the solver.  Real code: source/memtrace.c and the dispatch layer of source/allocator.c (aws_mem_acquire / calloc / realloc /
 * release / acquire_many), both part of this translation unit.  The hash table is the contract model (stubs/hash_model.c, justified by
 * C02).  Two harness allocators with real vtables:
 *   D  the "default allocator" the tracer keeps its own bookkeeping in: hands out statically TYPED objects (tracer block, alloc_info
 *      records, stack records), release asserted exactly once;
 *   W  the wrapped (traced) allocator: hands out distinct small blocks, records every call, realloc moves or keeps the block at the
 *      solver's choice.  WCFG=1 removes W's calloc/realloc so that the library's emulation paths run. */
#include "verif.h"
#include <string.h>
#define aws_default_allocator verif_real_default_allocator_unused
#include <../source/allocator.c>
#undef aws_default_allocator
struct aws_allocator *aws_default_allocator(void);
#include <../source/memtrace.c>
#ifndef LEVEL
#    define LEVEL 1
#endif
#ifndef WCFG
#    define WCFG 0
#endif
#ifndef OPS
#    define OPS "***"
#endif
#ifndef FRAMES
#    define FRAMES 1
#endif
#define NOPS (sizeof(OPS) - 1)
#define NB 8 /* blocks W can hand out / bookkeeping records D can hand out */
#define BLK 8
/* ---------------- environment stubs ---------------- */
static bool held;
int aws_mutex_init(struct aws_mutex *m) { (void)m; return AWS_OP_SUCCESS; }
void aws_mutex_clean_up(struct aws_mutex *m) { (void)m; }
int aws_mutex_lock(struct aws_mutex *m) { (void)m; ASSERT(!held, "tracer mutex: not locked twice"); held = true; return AWS_OP_SUCCESS; }
int aws_mutex_unlock(struct aws_mutex *m) { (void)m; ASSERT(held, "tracer mutex: unlock only when held"); held = false; return AWS_OP_SUCCESS; }
int aws_high_res_clock_get_ticks(uint64_t *t) { *t = nd_u64(); return AWS_OP_SUCCESS; }
static bool backtrace_works;
size_t aws_backtrace(void **stack, size_t n) { /* any frames, any depth 1..n (0 = unavailable, fixed per run) */
    if (!backtrace_works) return 0;
    size_t d = nd_size();
    ASSUME(d >= 1 && d <= n);
    for (size_t i = 0; i < FRAMES + 2; ++i) if (i < n) stack[i] = (void *)(uintptr_t)(nd_u8() & 1 ? 0x1000u : 0x2000u); /* two distinct call sites */
    return d;
}
uint64_t aws_hash_byte_cursor_ptr(const void *item) { /* some deterministic function of the bytes: sum of the frame words */
    const struct aws_byte_cursor *c = item;
    uint64_t h = c->len;
    for (size_t i = 0; i < FRAMES + 2; ++i) if ((i + 1) * sizeof(void *) <= c->len) { uint64_t w; memcpy(&w, c->ptr + i * sizeof(void *), sizeof w); h = h * 31 + w; }
    return h;
}
/* ---------------- D: bookkeeping allocator (typed objects) ---------------- */
static struct tracer_block { struct alloc_tracer t; struct aws_allocator a; } tb;
static bool tb_live;
static struct alloc_info ai0, ai1, ai2, ai3, ai4, ai5, ai6, ai7;
static struct alloc_info *const aip[NB] = {&ai0, &ai1, &ai2, &ai3, &ai4, &ai5, &ai6, &ai7};
struct stack_obj { size_t depth; void *frames[FRAMES]; };
static struct stack_obj so0, so1, so2, so3, so4, so5, so6, so7;
static struct stack_obj *const sop[NB] = {&so0, &so1, &so2, &so3, &so4, &so5, &so6, &so7};
static bool ai_live[NB], so_live[NB];
static size_t ai_next, so_next;
static void *d_acquire(struct aws_allocator *a, size_t size) {
    (void)a;
    ASSERT(size == sizeof(struct tracer_block) && offsetof(struct tracer_block, a) == ((sizeof(struct alloc_tracer) + 7u) & ~(size_t)7u), "D: the only plain acquire is the tracer block (acquire_many layout)");
    ASSERT(!tb_live, "D: one tracer");
    tb_live = true;
#ifndef VERIF_NATIVE
    struct tracer_block any; tb = any; /* arbitrary contents: acquire does not zero */
#endif
    return &tb;
}
static void *d_calloc(struct aws_allocator *a, size_t num, size_t size) {
    (void)a;
    ASSERT(num == 1, "D: calloc(1, record)");
    if (size == sizeof(struct alloc_info)) {
        ASSERT(ai_next < NB, "harness: enough alloc_info records (bound)"); ASSUME(ai_next < NB);
        static const struct alloc_info z; *aip[ai_next] = z; ai_live[ai_next] = true; return aip[ai_next++];
    }
    ASSERT(size == sizeof(struct stack_trace) + sizeof(void *) * FRAMES, "D: the other record kind is a stack trace with frames_per_stack frames");
    ASSERT(so_next < NB, "harness: enough stack records (bound)"); ASSUME(so_next < NB);
    static const struct stack_obj z; *sop[so_next] = z; so_live[so_next] = true; return sop[so_next++];
}
static void d_release(struct aws_allocator *a, void *p) {
    (void)a;
    if (p == &tb) { ASSERT(tb_live, "D: tracer block released once"); tb_live = false; return; }
    for (size_t i = 0; i < NB; ++i) if (p == aip[i]) { ASSERT(ai_live[i], "D: every alloc_info record is released exactly once"); ai_live[i] = false; return; }
    for (size_t i = 0; i < NB; ++i) if (p == sop[i]) { ASSERT(so_live[i], "D: every stack record is released exactly once"); so_live[i] = false; return; }
    ASSERT(0, "D: release of a pointer D did not hand out");
}
static struct aws_allocator D = {.mem_acquire = d_acquire, .mem_release = d_release, .mem_realloc = NULL, .mem_calloc = d_calloc, .impl = NULL};
struct aws_allocator *aws_default_allocator(void) { return &D; }
/* ---------------- W: the traced allocator ---------------- */
static uint8_t ub0[BLK], ub1[BLK], ub2[BLK], ub3[BLK], ub4[BLK], ub5[BLK], ub6[BLK], ub7[BLK];
static uint8_t *const ubp[NB] = {ub0, ub1, ub2, ub3, ub4, ub5, ub6, ub7};
static bool w_live[NB];
static size_t w_size[NB], w_next;
static unsigned w_calls;
static long w_index(const void *p) { for (size_t i = 0; i < NB; ++i) if (p == (const void *)ubp[i]) return (long)i; return -1; }
static void *w_new(size_t size, bool zero) {
    ASSERT(w_next < NB, "harness: enough blocks (bound)"); ASSUME(w_next < NB);
    size_t i = w_next++;
    w_live[i] = true; w_size[i] = size;
    for (size_t j = 0; j < BLK; ++j) ubp[i][j] = zero ? 0 : nd_u8();
    return ubp[i];
}
static void *w_acquire(struct aws_allocator *a, size_t size) { (void)a; w_calls++; ASSERT(size != 0, "W: never asked for 0 bytes"); return w_new(size, false); }
static void *w_calloc(struct aws_allocator *a, size_t num, size_t size) { (void)a; w_calls++; return w_new(num * size, true); }
static void w_release(struct aws_allocator *a, void *p) {
    (void)a; w_calls++;
    long i = w_index(p);
    ASSERT(i >= 0 && w_live[i], "W: release gets a live block of W, once");
    w_live[i] = false;
}
static void *w_realloc(struct aws_allocator *a, void *p, size_t oldsize, size_t newsize) {
    (void)a; w_calls++;
    ASSERT(newsize != 0, "W: realloc to 0 is turned into release by aws_mem_realloc");
    if (p == NULL) return w_new(newsize, false);
    long i = w_index(p);
    ASSERT(i >= 0 && w_live[i] && w_size[i] == oldsize, "W: realloc gets a live block with its true old size");
    if (nd_bool()) { w_size[i] = newsize; return p; } /* resized in place */
    uint8_t *q = w_new(newsize, false);
    for (size_t j = 0; j < BLK; ++j) if (j < oldsize && j < newsize) q[j] = ((uint8_t *)p)[j];
    w_live[i] = false;
    return q;
}
static struct aws_allocator W = {.mem_acquire = w_acquire, .mem_release = w_release,
#if WCFG == 0
                                 .mem_realloc = w_realloc, .mem_calloc = w_calloc,
#else
                                 .mem_realloc = NULL, .mem_calloc = NULL,
#endif
                                 .impl = NULL};
/* ---------------- the program ---------------- */
#define NS 3 /* user slots */
static void *slot[NS];
static size_t slot_size[NS];
static uint8_t slot_b0[NS]; /* first byte the user stored */
static void check_counts(struct aws_allocator *T) {
    size_t sum = 0, cnt = 0;
    for (size_t s = 0; s < NS; ++s) if (slot[s]) { sum += slot_size[s]; cnt++; }
    if (LEVEL == 0) {
        ASSERT(aws_mem_tracer_bytes(T) == 0 && aws_mem_tracer_count(T) == 0, "tracing off: both reports are zero");
    } else {
        ASSERT(aws_mem_tracer_bytes(T) == sum, "reported bytes == sum of the requested sizes of the live allocations");
        ASSERT(aws_mem_tracer_count(T) == cnt, "reported count == number of live allocations");
        size_t recs = 0;
        for (size_t i = 0; i < NB; ++i) if (ai_live[i]) recs++;
        ASSERT(recs == cnt, "one bookkeeping record per live allocation (none leaked, none missing)");
    }
    size_t wl = 0;
    for (size_t i = 0; i < NB; ++i) if (w_live[i]) wl++;
    ASSERT(wl == cnt, "the wrapped allocator holds exactly the live blocks");
    for (size_t s = 0; s < NS; ++s) if (slot[s]) {
        long i = w_index(slot[s]);
        ASSERT(i >= 0 && w_live[i] && (WCFG == 1 ? w_size[i] >= slot_size[s] : w_size[i] == slot_size[s]), "every live pointer is a live block of the wrapped allocator, large enough for the requested size");
        ASSERT(((uint8_t *)slot[s])[0] == slot_b0[s], "contents of live blocks are undisturbed");
    }
    ASSERT(!held, "tracer mutex released");
}
#ifndef SHIFT
#    define SHIFT 0
#endif
static size_t any_size(void) {
    size_t z = nd_size();
#if WCFG == 0
    /* W treats memory abstractly, so sizes are only numbers: 16 significant bits placed at bit SHIFT (0, 32 or 47 per job: sizes beyond
     * 2^32 and up to 2^63).  Fully unconstrained 64-bit sizes made the solver prove associativity of 64-bit adder chains and did not
     * finish in 400 s on any back end. */
    ASSUME(z >= 1 && z <= 0xffffu);
    return z << SHIFT;
#else
    ASSUME(z >= 1 && z <= BLK); /* the library's calloc/realloc emulation touches the bytes */
    return z;
#endif
}
void h_tracer_program(void) {
    backtrace_works = nd_bool();
    struct aws_allocator *T = aws_mem_tracer_new(&W, NULL, (enum aws_mem_trace_level)LEVEL, FRAMES);
    ASSERT(T != NULL && T != &W, "tracer_new returns a new allocator");
    check_counts(T);
    static const char ops[] = OPS;
    bool saw_move = false, saw_shrink = false, saw_refill = false;
    for (size_t step = 0; step < NOPS; ++step) {
        char op = ops[step];
        if (op == '*') { static const char alphabet[] = "ACRF"; unsigned sel = nd_u8(); ASSUME(sel < 4); op = alphabet[sel]; }
        size_t s = nd_size();
        ASSUME(s < NS);
        unsigned calls_before = w_calls;
        if (op == 'A' && !slot[s]) {
            size_t z = any_size();
            slot[s] = aws_mem_acquire(T, z); slot_size[s] = z;
            ASSERT(slot[s] != NULL && w_calls == calls_before + 1, "acquire: forwarded once to the wrapped allocator");
            slot_b0[s] = nd_u8(); ((uint8_t *)slot[s])[0] = slot_b0[s];
        } else if (op == 'C' && !slot[s]) {
            size_t num = nd_size(), z = nd_size();
#if WCFG == 0
            ASSUME(num >= 1 && num <= 3 && z >= 1 && z <= 0xffffu); z <<= SHIFT;
            ASSUME(num == 1 || z <= (SIZE_MAX >> 2)); /* API precondition: the product fits (aws_mem_calloc aborts otherwise); num <= 3 */ /* element count 1..3: the three 64x64 multiplications of (num, size) along the path are then cheap for SAT; element size up to 2^60 */
#else
            ASSUME(num >= 1 && z >= 1 && num <= BLK && z <= BLK && num * z <= BLK);
#endif
            slot[s] = aws_mem_calloc(T, num, z); slot_size[s] = num * z;
            ASSERT(slot[s] != NULL && ((uint8_t *)slot[s])[0] == 0, "calloc: zeroed memory like the wrapped allocator's");
            slot_b0[s] = 0;
        } else if (op == 'R') {
            size_t nz = nd_bool() ? 0 : any_size(); /* 0 = release through realloc */
            void *old = slot[s];
            size_t oz = old ? slot_size[s] : 0;
            ASSERT(aws_mem_realloc(T, &slot[s], oz, nz) == AWS_OP_SUCCESS, "realloc succeeds");
            if (nz == 0) { ASSERT(slot[s] == NULL, "realloc to 0 releases the block"); slot_size[s] = 0; }
            else {
                ASSERT(slot[s] != NULL, "realloc returns a block");
                if (old && oz >= 1) ASSERT(((uint8_t *)slot[s])[0] == slot_b0[s], "realloc keeps the old contents up to the smaller size");
                if (WCFG == 1 && old && oz >= nz) ASSERT(slot[s] == old, "emulated realloc that does not grow keeps the block");
                slot_size[s] = nz; /* the requested size is what the tracer accounts for */
                if (!old) { slot_b0[s] = nd_u8(); ((uint8_t *)slot[s])[0] = slot_b0[s]; }
                if (old && slot[s] != old) saw_move = true;
                if (old && nz < oz) saw_shrink = true;
            }
        } else if (op == 'F' && slot[s]) {
            aws_mem_release(T, slot[s]);
            ASSERT(w_calls == calls_before + 1, "release: forwarded once");
            slot[s] = NULL; slot_size[s] = 0;
            saw_refill = true;
        }
        check_counts(T);
    }
    bool some_live = false;
    for (size_t s = 0; s < NS; ++s) if (slot[s]) some_live = true;
    /* release everything, then both reports are zero; destroy returns the wrapped allocator and all bookkeeping */
    for (size_t s = 0; s < NS; ++s) if (slot[s]) { aws_mem_release(T, slot[s]); slot[s] = NULL; }
    ASSERT(aws_mem_tracer_bytes(T) == 0 && aws_mem_tracer_count(T) == 0, "both reports are zero once everything is released");
    ASSERT(aws_mem_tracer_destroy(T) == &W, "destroy returns the wrapped allocator");
    ASSERT(!tb_live, "destroy releases the tracer");
    for (size_t i = 0; i < NB; ++i) ASSERT(!ai_live[i] && !so_live[i], "destroy releases every bookkeeping record");
    if (LEVEL == 2 && backtrace_works && ai_next > so_next && so_next >= 1) WITNESS("two allocations share one stack record");
    if (LEVEL == 2 && !backtrace_works) WITNESS("backtrace unavailable: level clamped to BYTES");
    if (saw_move) WITNESS("realloc moved a block");
    if (saw_shrink) WITNESS("realloc shrank a block");
    if (saw_refill && some_live) WITNESS("release then further allocations");
    WITNESS("tracer program");
}
