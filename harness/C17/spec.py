# C17 — memory tracer over the hash-table contract model
SRC = ["source/common.c", "source/error.c", "source/math.c", "source/byte_buf.c"]
STUBS = ["base.c", "hash_model.c"]
T = ["s_trace_mem_%s", "w_%s", "d_%s"]


def spec(tier):
    units, jobs = {}, []
    quick = tier == "quick"
    # (level, wrapped-allocator config, size shift)
    cfgs = [(1, 0, 0), (1, 1, 0), (2, 0, 0), (0, 0, 0), (1, 0, 32)] if quick else [(1, 0, 0), (1, 1, 0), (2, 0, 0), (2, 1, 0), (0, 0, 0), (0, 1, 0), (1, 0, 32), (1, 0, 47), (2, 0, 32)]
    # '*' = operation chosen by the solver; in scripted programs slot and sizes (and whether realloc moves / goes to zero) stay symbolic
    scripts = ["**", "AAR", "ARF", "ACF", "RRF", "CRR"] if quick else ["**", "AAR", "ARF", "ACF", "RRF", "CRR", "ARR", "AFR", "AAA", "CCF", "ARFA", "AARF", "RARF"]  # three free operations ("***", "A**") did not finish in 400 s on minisat / cadical / kissat / cvc5-int
    for level, wcfg, shift in cfgs:
        fpr = {
            "aws_mem_acquire.function_pointer_call.1": ["s_trace_mem_acquire", "w_acquire", "d_acquire"],
            "aws_mem_release.function_pointer_call.1": ["s_trace_mem_release", "w_release", "d_release"],
            "aws_mem_calloc.function_pointer_call.1": ["s_trace_mem_calloc", "d_calloc"] + (["w_calloc"] if wcfg == 0 else []),
            "aws_mem_calloc.function_pointer_call.2": ["w_acquire"],
            "aws_mem_realloc.function_pointer_call.1": ["s_trace_mem_realloc"] + (["w_realloc"] if wcfg == 0 else []),
            "aws_mem_realloc.function_pointer_call.2": ["w_acquire"],
            "hm_hash.function_pointer_call.1": ["aws_hash_ptr"], "hm_eq.function_pointer_call.1": ["aws_ptr_eq"],
            "hm_dk.function_pointer_call.1": ["s_destroy_alloc"], "hm_dv.function_pointer_call.1": ["s_destroy_alloc", "s_destroy_stacktrace"],
        }
        for ops in (scripts if (level, shift) == (1, 0) or not quick else scripts[:3]):
            u = "t%d_%d_%d_%s" % (level, wcfg, shift, ops)
            units[u] = dict(harness=["C17/h_trace.c"], sources=SRC, stubs=STUBS + (["mem0.c"] if wcfg else []), fp_restrict=fpr, native=False, pre_include=["stubs/plain_atomics.h"],
                            defines={"LEVEL": level, "WCFG": wcfg, "SHIFT": shift, "OPS": '"%s"' % ops, "FRAMES": 1, "HM_CAP": 4, "HM_TABLES": 2})
            jobs.append(dict(unit=u, entry="h_tracer_program", unwind=10, timeout=600 if quick else 3000,
                             bounds="program %s (A acquire, C calloc, R realloc incl. from NULL / to zero / moving or in place, F release, * = any of them); slot (3 slots) and sizes chosen by the "
                                    "solver; tracing level %d; wrapped allocator %s; sizes %s" % (ops, level, "with its own calloc/realloc" if wcfg == 0 else "without calloc/realloc (library emulation paths)",
                                                                                           ("(1..65535) << %d" % shift) if wcfg == 0 else "1..8 bytes"),
                             what="after every operation the reported bytes / count equal the live allocations; memory behaves like the wrapped allocator's; bookkeeping records released exactly once"))
    import os
    if os.environ.get("C17PROBE"):
        for ops in os.environ["C17PROBE"].split(","):
            u = "p_" + ops
            units[u] = dict(units["t1_0_0_**"]); units[u]["defines"] = dict(units["t1_0_0_**"]["defines"], OPS='"%s"' % ops)
            jobs.append(dict(unit=u, entry="h_tracer_program", unwind=10, timeout=int(os.environ.get("C17TO", "120")), backend=os.environ.get("C17BE", "minisat"), bounds="probe", what="probe"))
    meta = dict(functions_encoded=["all of source/memtrace.c except aws_mem_tracer_dump", "source/allocator.c: aws_mem_acquire, aws_mem_calloc, aws_mem_realloc, aws_mem_release, aws_mem_acquire_many"],
                bounds="every program of 2 operations and scripted programs of 3-4 operations with symbolic slots and sizes; 3 user slots; levels NONE/BYTES/STACKS; 1 frame per stack; sizes 16 bits wide at bit 0 / 32 / 47",
                stubs=["hash_model.c: the hash table replaced by the map its contracts describe (C02 decides the real table against them); aws_hash_ptr = constant (every pair of keys collides)",
                       "harness allocators D (typed bookkeeping objects) and W (wrapped allocator, realloc moves or keeps at the solver's choice)",
                       "aws_mutex_* (lock discipline asserted), aws_high_res_clock_get_ticks (arbitrary), aws_backtrace (arbitrary frames from two call sites, arbitrary depth; may be unavailable), "
                       "aws_hash_byte_cursor_ptr (a polynomial of the frame words)", "plain_atomics.h (sequential atomics)"],
                out=["NOT DECIDED: any number of threads (interleavings of pointer-sharing threads are rejected by CBMC); aws_mem_tracer_dump (priority queues over the table, symbol resolution, logging)",
                     "allocation failure of either allocator", "more than 3 simultaneously live allocations, programs longer than the bound"],
                assumptions=["aws_hash_table meets the contract modelled in stubs/hash_model.c (C02)"])
    return dict(units=units, jobs=jobs, meta=meta, max_parallel=8)
