/* C06 — priority queue: one operation from an ARBITRARY heap-ordered queue with an arbitrary
 * subset of elements carrying handles.  WLOG the element in slot i is named id i (ids are labels). */
#include "verif.h"
#include <aws/common/priority_queue.h>
#include <aws/common/error.h>
#include <string.h>
#ifndef CAPN
#    define CAPN 5
#endif
#ifndef PAD
#    define PAD 0
#endif
struct elem { int32_t prio; int32_t id; uint8_t pad[PAD + 1]; /* PAD>0: element larger than the 128-byte swap slice */ };
#define NIL ((size_t)-1)

static int cmp(const void *a, const void *b) {
    int32_t x = ((const struct elem *)a)->prio, y = ((const struct elem *)b)->prio;
    return (x > y) - (x < y);
}
static struct aws_priority_queue q;
static struct aws_priority_queue_node node[CAPN + 2]; /* node[id]; CAPN = the new element, CAPN+1 = a stale handle */
static bool attached[CAPN + 2];
static int32_t prio_of[CAPN + 2];
static uint8_t pad_of[CAPN + 2];
static size_t n0;        /* initial length */
static bool has_bp, dyn;

static void mk_queue(int bp_mode /*0 absent,1 present,2 nondet*/, int dyn_mode) {
#ifdef DYN
    dyn = DYN; (void)dyn_mode;
#else
    dyn = dyn_mode == 2 ? nd_bool() : dyn_mode;
#endif
#ifdef HASBP
    has_bp = HASBP; (void)bp_mode;
#else
    has_bp = bp_mode == 2 ? nd_bool() : bp_mode;
#endif
    if (!dyn) has_bp = false; /* a static queue can never have obtained a handle array */
#ifdef N0
    n0 = N0; /* fixed per job where the operation allocates (allocation sizes stay constant) */
#else
    n0 = nd_size();
#endif
    ASSUME(n0 <= CAPN);
    struct elem *store = verif_malloc(CAPN * sizeof(struct elem));
    q.pred = cmp;
    q.container.alloc = dyn ? verif_allocator() : NULL;
    q.container.current_size = CAPN * sizeof(struct elem);
    q.container.item_size = sizeof(struct elem);
    q.container.length = n0;
    q.container.data = store;
    memset(&q.backpointers, 0, sizeof q.backpointers);
    struct aws_priority_queue_node **bp = NULL;
    if (has_bp) {
        bp = verif_malloc(CAPN * sizeof(void *));
        q.backpointers.alloc = verif_allocator();
        q.backpointers.current_size = CAPN * sizeof(void *);
        q.backpointers.item_size = sizeof(void *);
        q.backpointers.length = n0;
        q.backpointers.data = bp;
    }
    for (size_t i = 0; i < CAPN + 2; ++i) { node[i].current_index = NIL; attached[i] = false; }
    for (size_t i = 0; i < CAPN; ++i) {
        if (i < n0) {
            store[i].prio = prio_of[i] = (int32_t)nd_u32();
            store[i].id = (int32_t)i;
            store[i].pad[PAD] = pad_of[i] = nd_u8();
            if (i > 0) ASSUME(store[(i - 1) / 2].prio <= store[i].prio); /* heap order */
            if (has_bp) {
                attached[i] = nd_bool();
                bp[i] = attached[i] ? &node[i] : NULL;
                if (attached[i]) node[i].current_index = i;
            }
        }
    }
}
/* after the operation: `removed` = id that must be gone (or NIL), `added` = id that must be new (or NIL) */
static void chk_queue(size_t removed, size_t added) {
    size_t n = q.container.length;
    size_t expect = n0 - (removed != NIL ? 1 : 0) + (added != NIL ? 1 : 0);
    ASSERT(n == expect, "pq: size equals reference multiset size");
    ASSERT(aws_priority_queue_size(&q) == n, "pq: size query");
    struct elem *st = q.container.data;
    struct aws_priority_queue_node **bp = q.backpointers.data;
    bool bp_on = q.backpointers.data != NULL;
    if (bp_on) ASSERT(q.backpointers.length == n, "pq: handle array as long as the container");
    size_t seen[CAPN + 2];
    for (size_t k = 0; k < CAPN + 2; ++k) seen[k] = 0;
    for (size_t i = 0; i < CAPN + 1; ++i)
        if (i < n) {
            if (i > 0) ASSERT(st[(i - 1) / 2].prio <= st[i].prio, "pq: heap order (parent <= child)");
            size_t id = (size_t)st[i].id;
            ASSERT(id < CAPN + 1, "pq: stored element is one of the reference elements");
            seen[id]++;
            ASSERT(st[i].prio == prio_of[id] && st[i].pad[PAD] == pad_of[id], "pq: element content intact (all of it moved together)");
            if (bp_on) {
                ASSERT(bp[i] == (attached[id] ? &node[id] : NULL), "pq: slot's handle is its own element's handle");
                if (attached[id]) ASSERT(node[id].current_index == i, "pq: handle tracks its element's slot");
            }
        }
    for (size_t k = 0; k < CAPN + 1; ++k) {
        bool should = (k < n0 && k != removed) || k == added;
        ASSERT(seen[k] == (should ? 1u : 0u), "pq: contents equal the reference multiset");
        if (!should) ASSERT(node[k].current_index == NIL || !attached[k], "pq: handle of an element that left is marked not-in-queue");
    }
    if (removed != NIL && attached[removed]) ASSERT(!aws_priority_queue_node_is_in_queue(&node[removed]), "pq: removed element's handle reports not in queue");
    ASSERT(node[CAPN + 1].current_index == NIL, "pq: unrelated stale handle untouched");
}
static void chk_unchanged(void) { chk_queue(NIL, NIL); }

void h_pq_push(void) {
    mk_queue(2, 2);
    struct elem e;
    e.prio = prio_of[CAPN] = (int32_t)nd_u32();
    e.id = CAPN;
    e.pad[PAD] = pad_of[CAPN] = nd_u8();
    bool with_handle = nd_bool();
    int rc = with_handle ? aws_priority_queue_push_ref(&q, &e, &node[CAPN]) : aws_priority_queue_push(&q, &e);
    if (with_handle) attached[CAPN] = true;
    if (!dyn && n0 == CAPN) {
        ASSERT(rc == AWS_OP_ERR, "pq: fixed-capacity queue refuses a push beyond capacity");
        attached[CAPN] = false;
        chk_unchanged();
        WITNESS("push refused: static full");
        return;
    }
    if (!dyn && with_handle) {
        ASSERT(rc == AWS_OP_ERR && aws_last_error() == AWS_ERROR_UNSUPPORTED_OPERATION, "pq: static queue cannot take a handle");
        attached[CAPN] = false;
        chk_unchanged();
        WITNESS("push_ref refused on static queue");
        return;
    }
    ASSERT(rc == AWS_OP_SUCCESS, "pq: push succeeds");
    chk_queue(NIL, CAPN);
    WITNESS("push ok");
    if (with_handle && !has_bp && n0 >= 2) WITNESS("first handle arrives when the queue already holds elements");
    if (with_handle && has_bp && n0 >= 3 && node[CAPN].current_index == 0) WITNESS("pushed element with handle sifted to the top");
    if (dyn && n0 == CAPN) WITNESS("push grew the container");
}

void h_pq_pop_top(void) {
    mk_queue(2, 2);
    struct elem out;
    bool pop = nd_bool();
    if (n0 == 0) {
        void *p = NULL;
        int rc = pop ? aws_priority_queue_pop(&q, &out) : aws_priority_queue_top(&q, &p);
        ASSERT(rc == AWS_OP_ERR && aws_last_error() == AWS_ERROR_PRIORITY_QUEUE_EMPTY, "pq: pop/top on empty queue is an error");
        chk_unchanged();
        WITNESS("pop/top empty");
        return;
    }
    if (!pop) {
        void *p = NULL;
        ASSERT(aws_priority_queue_top(&q, &p) == AWS_OP_SUCCESS, "pq: top succeeds");
        struct elem *t = p;
        for (size_t k = 0; k < CAPN; ++k) if (k < n0) ASSERT(t->prio <= prio_of[k], "pq: top is a minimum of the stored multiset");
        chk_unchanged();
        return;
    }
    ASSERT(aws_priority_queue_pop(&q, &out) == AWS_OP_SUCCESS, "pq: pop succeeds");
    for (size_t k = 0; k < CAPN; ++k) if (k < n0) ASSERT(out.prio <= prio_of[k], "pq: popped element is a minimum of the stored multiset");
    ASSERT((size_t)out.id < n0 && out.prio == prio_of[out.id] && out.pad[PAD] == pad_of[out.id], "pq: popped element is one of the stored elements, intact");
    chk_queue((size_t)out.id, NIL);
    if (n0 >= 4 && has_bp) WITNESS("pop with handles, >= 4 elements");
}

void h_pq_remove(void) {
    mk_queue(1, 1);
    struct elem out;
    out.id = -1;
    size_t k = nd_size();
    ASSUME(k < CAPN + 2);
    bool live = k < n0 && attached[k];
    ASSUME(live || node[k].current_index == NIL); /* handles of absent elements are stale by the invariant */
    int rc = aws_priority_queue_remove(&q, &out, &node[k]);
    if (!live) {
        ASSERT(rc == AWS_OP_ERR && aws_last_error() == AWS_ERROR_PRIORITY_QUEUE_BAD_NODE, "pq: stale / never-queued handle is refused");
        chk_unchanged();
        WITNESS("remove stale handle");
        return;
    }
    ASSERT(rc == AWS_OP_SUCCESS, "pq: remove by live handle succeeds");
    ASSERT((size_t)out.id == k && out.prio == prio_of[k] && out.pad[PAD] == pad_of[k], "pq: remove returns exactly the handle's element");
    chk_queue(k, NIL);
    if (n0 >= 4 && k == 1) WITNESS("remove interior element");
    if (k == n0 - 1) WITNESS("remove last slot");
}

void h_pq_remove_no_handles(void) { /* queue that never had a handle array: every handle is refused */
    mk_queue(0, 2);
    struct elem out;
    size_t k = nd_size();
    ASSUME(k < CAPN + 2);
    node[k].current_index = nd_size(); /* even a node whose index looks in range */
    size_t saved = node[k].current_index;
    int rc = aws_priority_queue_remove(&q, &out, &node[k]);
    ASSERT(rc == AWS_OP_ERR && aws_last_error() == AWS_ERROR_PRIORITY_QUEUE_BAD_NODE, "pq: remove without handle array is refused");
    node[k].current_index = NIL;
    chk_unchanged();
    (void)saved;
    WITNESS("remove without handle array");
}

void h_pq_clear(void) {
    mk_queue(2, 2);
    aws_priority_queue_clear(&q);
    ASSERT(q.container.length == 0 && aws_priority_queue_size(&q) == 0, "pq: clear empties the queue");
    ASSERT(q.backpointers.length == 0, "pq: clear empties the handle array");
    for (size_t k = 0; k < CAPN + 2; ++k) ASSERT(node[k].current_index == NIL, "pq: clear marks every handle not-in-queue");
    if (has_bp && n0 >= 2) WITNESS("clear with handles");
    WITNESS("clear");
}

/* init + short program with handles (cross-check that mk_queue states are not over-constrained) */
static void init_program(const bool dynamic) {
    struct aws_priority_queue p;
    struct elem store[2];
    if (dynamic) ASSERT(aws_priority_queue_init_dynamic(&p, verif_allocator(), 1, sizeof(struct elem), cmp) == AWS_OP_SUCCESS, "init_dynamic");
    else aws_priority_queue_init_static(&p, store, 2, sizeof(struct elem), cmp);
    ASSERT(aws_priority_queue_size(&p) == 0, "init: empty");
    struct elem a, b, c, out;
    a.prio = (int32_t)nd_u32(); b.prio = (int32_t)nd_u32(); c.prio = (int32_t)nd_u32();
    a.id = 0; b.id = 1; c.id = 2;
    struct aws_priority_queue_node hb;
    aws_priority_queue_node_init(&hb);
    ASSERT(!aws_priority_queue_node_is_in_queue(&hb), "node_init: not in queue");
    ASSERT(aws_priority_queue_push(&p, &a) == AWS_OP_SUCCESS, "prog: push a");
    int rb = aws_priority_queue_push_ref(&p, &b, &hb);
    if (!dynamic) {
        ASSERT(rb == AWS_OP_ERR, "prog: static queue refuses handle");
        ASSERT(aws_priority_queue_size(&p) == 1, "prog: refused push leaves size");
        ASSERT(aws_priority_queue_push(&p, &b) == AWS_OP_SUCCESS, "prog: push b");
        ASSERT(aws_priority_queue_push(&p, &c) == AWS_OP_ERR, "prog: third push exceeds static capacity 2");
        ASSERT(aws_priority_queue_capacity(&p) == 2, "prog: capacity");
        WITNESS("static program");
        return;
    }
    ASSERT(rb == AWS_OP_SUCCESS, "prog: push b with handle");
    ASSERT(aws_priority_queue_push(&p, &c) == AWS_OP_SUCCESS, "prog: push c");
    ASSERT(aws_priority_queue_pop(&p, &out) == AWS_OP_SUCCESS, "prog: pop");
    ASSERT(out.prio <= a.prio && out.prio <= b.prio && out.prio <= c.prio, "prog: pop is minimum");
    if (out.id == 1) {
        ASSERT(!aws_priority_queue_node_is_in_queue(&hb), "prog: popped element's handle marked");
        ASSERT(aws_priority_queue_remove(&p, &out, &hb) == AWS_OP_ERR, "prog: stale handle refused");
        ASSERT(aws_priority_queue_size(&p) == 2, "prog: refused remove leaves size");
    } else {
        ASSERT(aws_priority_queue_node_is_in_queue(&hb), "prog: b still in queue");
        ASSERT(aws_priority_queue_remove(&p, &out, &hb) == AWS_OP_SUCCESS && out.id == 1 && out.prio == b.prio, "prog: remove b by handle");
        ASSERT(aws_priority_queue_size(&p) == 1, "prog: one left");
    }
    aws_priority_queue_clean_up(&p);
    WITNESS("dynamic program");
}
void h_pq_init_program_dynamic(void) { init_program(true); }
void h_pq_init_program_static(void) { init_program(false); }
