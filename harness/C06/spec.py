# C06 — priority queue
SRC = ["source/priority_queue.c", "source/array_list.c", "source/common.c", "source/error.c", "source/math.c"]
STUBS = ["base.c", "alloc_direct.c", "mem0.c"]
CONF = [(1, 1, "dynamic, handle array present"), (1, 0, "dynamic, no handle array yet"), (0, 0, "fixed-capacity (static storage)")]


def spec(tier):
    capn = 5 if tier == "quick" else 7
    units, jobs = {}, []

    def unit(name, **defs):
        units[name] = dict(harness=["C06/h_pq.c"], sources=SRC, stubs=STUBS, defines=defs)
        return name
    for dyn, bp, txt in CONF:
        u = unit("pq_d%d_b%d" % (dyn, bp), CAPN=capn, DYN=dyn, HASBP=bp)
        ents = ["h_pq_pop_top", "h_pq_clear"] + (["h_pq_remove"] if bp else ["h_pq_remove_no_handles"])
        for e in ents:
            jobs.append(dict(unit=u, entry=e, unwind=capn + 4,
                             bounds="%s; capacity %d elements of 12 bytes, length 0..%d symbolic, 32-bit priorities symbolic, handles on an arbitrary subset" % (txt, capn, capn),
                             what="one operation from an arbitrary heap-ordered queue: " + e))
        for n0 in range(0, capn + 1):
            u2 = unit("pq_d%d_b%d_n%d" % (dyn, bp, n0), CAPN=capn, DYN=dyn, HASBP=bp, N0=n0)
            jobs.append(dict(unit=u2, entry="h_pq_push", unwind=capn + 4,
                             bounds="%s; capacity %d, initial length %d (allocation sizes constant), priorities symbolic, with/without new handle" % (txt, capn, n0),
                             what="push / push_ref from an arbitrary heap-ordered queue of length %d" % n0))
        # elements larger than the 128-byte swap slice
        ub = unit("pqbig_d%d_b%d" % (dyn, bp), CAPN=3, PAD=131, DYN=dyn, HASBP=bp)
        for e in ["h_pq_pop_top"] + (["h_pq_remove"] if bp else []):
            jobs.append(dict(unit=ub, entry=e, unwind=7, bounds="%s; 3 elements of 140 bytes; last byte of each element tracked" % txt,
                             what="140-byte elements: " + e))
        for n0 in (0, 2):
            ub2 = unit("pqbig_d%d_b%d_n%d" % (dyn, bp, n0), CAPN=3, PAD=131, DYN=dyn, HASBP=bp, N0=n0)
            jobs.append(dict(unit=ub2, entry="h_pq_push", unwind=7, bounds="%s; 140-byte elements, capacity 3, initial length %d" % (txt, n0),
                             what="push with 140-byte elements, length %d" % n0))
    u = unit("pq_prog", CAPN=capn)
    for e in ["h_pq_init_program_dynamic", "h_pq_init_program_static"]:
        jobs.append(dict(unit=u, entry=e, unwind=capn + 4, bounds="init + push, push_ref, push, pop, remove; priorities symbolic",
                         what="from-init program cross-check: " + e))
    meta = dict(functions_encoded=["all of source/priority_queue.c", "array_list.c/.inl functions it uses (push_back, set_at, swap incl. mem_swap, pop_back, get_at*)"],
                bounds="N=%d elements (sift depth %d); 140-byte elements with N=3" % (capn, 3 if capn >= 7 else 2),
                stubs=["base.c", "alloc_direct.c", "mem0.c"],
                out=["queues with more than %d elements" % capn, "comparators other than a total pre-order on a 32-bit key", "allocation failure"],
                assumptions=["WLOG element in slot i is labelled id i", "pre-state: heap order + handle bijection (re-established by every operation and by init)",
                             "storage mode and presence of the handle array are enumerated per job, not symbolic"])
    return dict(units=units, jobs=jobs, meta=meta)
